/-
  Props/C19.lean — conversions and re-alignment never move data to the wrong name.
  All theorems are for arrays of any rank and any sizes (induction on the shape), over the
  model in Model/C19.lean.

  Main results
    unravel_ravel / ravel_unravel        row-major index arithmetic, any rank and sizes
    toFunsor_sem                         which axis receives which name; value at every named point
    toFunsor_rejects_unnamed             the ValueError branch (un-named batch axis of size != 1)
    toFunsor_empty_d2n_witness           why `dim_to_name != {}` is a hypothesis
    toData_toFunsor_roundtrip(')         to_data(to_funsor(x)) = x up to leading size-1 batch axes
    toData_sem / toData_sem_idx          to_data for ANY injective name_to_dim: shape and value at every index
    roundtrip_sem                        pointwise round trip as a corollary of toFunsor_sem + toData_sem
    toFunsor_toData_roundtrip            to_funsor(to_data(x, name_to_dim), output, inverse) = x pointwise, any injective map
    perm_eq_inverse_iff_involution       permutation vs inverse agree iff involution; 3-cycle witnesses
    permute_inverse_ne_3cycle            (gather level and array level: same shape, different data)
    align_sem                            Tensor.align: inputs order, sizes, value at every point
    alignTensor_sem                      align_tensor (permute, un-squeeze, expand): value at every point
    alignTensors_sem / binaryT_sem       align_tensors: union order, per-tensor value, broadcast shape; eager binary op
    materialize_sem / materialize_eval_sem   substituting aranges (then evaluating eagerly) = the lazy term's denotation
    alignT_denote                        lazy Align / Align.align / Contraction.align: identity on the denoted function
    alignT_keyset / alignT_keys_full     ... keep the set of inputs; with all names given, .inputs order = names exactly
    alignT_partial_lazy                  partial names on a lazy non-tensor term: wrapper dropped, order unchanged
    align_keeps_domain / reorderByName_keeps_domain / reorderByPosition_witness   re-ordering keeps name -> domain
    tensor_callers_covered / alignTensor_guards_pinned   tensor.py's own callers of align_tensor(s); OrderedDict guard pinned
    realign_callers_covered              obligation over Gen/C19Callers.lean (callers of to_data/to_funsor/align_tensor(s))
    madeOp_sem                           make_op rule (binary): value at every named point = f of the operands' values there
    operand_padded / clip_operand / buildAx_eq_map   the broadcasting glue (raw operands as maps over the axis range)
    madeDims_ok / madeOp_operand_sem_partial   make_op rule: injective joint name_to_dim; each raw operand = the operand pointwise
    madeOp_example / madeOp_skip_toData_witness   the make_op rule on x(a,b), y(b,a); skipping to_data is unsound
    align_classes_covered                obligation over Gen/C19Align.lean (classes defining `align`, from source)
    deltaAlign_perm / deltaAlign_keys    Delta.align only reorders the terms, into exactly the order `names`
-/
import FunsorVerif.Model.C19
import FunsorVerif.Gen.C19Align
import FunsorVerif.Gen.C19Callers
namespace FV.Props.C19
open FV.C19
variable {α : Type}

theorem inb_length : ∀ (s i : List Nat), inb s i = true → i.length = s.length
  | [], [], _ => rfl
  | [], _ :: _, h => by simp [inb] at h
  | _ :: _, [], h => by simp [inb] at h
  | s :: ss, i :: is, h => by
      simp only [inb, Bool.and_eq_true, decide_eq_true_eq] at h
      simp [inb_length ss is h.2]

theorem ravel_lt : ∀ (s i : List Nat), inb s i = true → ravel s i < prod s
  | [], [], _ => by simp [ravel, prod]
  | [], _ :: _, h => by simp [inb] at h
  | _ :: _, [], h => by simp [inb] at h
  | s :: ss, i :: is, h => by
      simp only [inb, Bool.and_eq_true, decide_eq_true_eq] at h
      have ih := ravel_lt ss is h.2
      simp only [ravel, prod]
      calc i * prod ss + ravel ss is < i * prod ss + prod ss := by omega
        _ = (i + 1) * prod ss := by rw [Nat.add_mul, Nat.one_mul]
        _ ≤ s * prod ss := Nat.mul_le_mul_right _ h.1

theorem unravel_ravel : ∀ (s i : List Nat), inb s i = true → unravel s (ravel s i) = i
  | [], [], _ => rfl
  | [], _ :: _, h => by simp [inb] at h
  | _ :: _, [], h => by simp [inb] at h
  | s :: ss, i :: is, h => by
      simp only [inb, Bool.and_eq_true, decide_eq_true_eq] at h
      have ih := unravel_ravel ss is h.2
      have hlt := ravel_lt ss is h.2
      have hpos : 0 < prod ss := by omega
      simp only [ravel, unravel]
      have h1 : (i * prod ss + ravel ss is) / prod ss = i := by
        rw [Nat.mul_comm, Nat.mul_add_div hpos, Nat.div_eq_of_lt hlt, Nat.add_zero]
      have h2 : (i * prod ss + ravel ss is) % prod ss = ravel ss is := by
        rw [Nat.mul_comm, Nat.mul_add_mod, Nat.mod_eq_of_lt hlt]
      rw [h1, h2, ih]

theorem inb_unravel : ∀ (s : List Nat) (k : Nat), k < prod s → inb s (unravel s k) = true
  | [], _, _ => rfl
  | s :: ss, k, h => by
      simp only [prod] at h
      have hpos : 0 < prod ss := by
        rcases Nat.eq_zero_or_pos (prod ss) with h0 | h0
        · rw [h0] at h; omega
        · exact h0
      simp only [unravel, inb, Bool.and_eq_true, decide_eq_true_eq]
      refine ⟨?_, inb_unravel ss _ (Nat.mod_lt _ hpos)⟩
      rw [Nat.div_lt_iff_lt_mul hpos]; exact h

theorem ravel_unravel : ∀ (s : List Nat) (k : Nat), k < prod s → ravel s (unravel s k) = k
  | [], k, h => by simp [prod] at h; simp [ravel, h]
  | s :: ss, k, h => by
      simp only [prod] at h
      have hpos : 0 < prod ss := by
        rcases Nat.eq_zero_or_pos (prod ss) with h0 | h0
        · rw [h0] at h; omega
        · exact h0
      simp only [unravel, ravel]
      rw [ravel_unravel ss _ (Nat.mod_lt _ hpos)]
      exact Nat.div_add_mod' k (prod ss)


/-! ### tensor_to_funsor -/

/-- Spec of the packed inputs: the named batch axes of size ≠ 1, in axis order. -/
def packedSpec : List (Option String × Nat) → Inputs
  | [] => []
  | (some n, s) :: l => if s ≠ 1 then (n, s) :: packedSpec l else packedSpec l
  | (none, _) :: l => packedSpec l

/-- The batch index of `x` that the named point `env` denotes (squeezed axes read at 0). -/
def bidx (env : String → Nat) : List (Option String × Nat) → List Nat
  | [] => []
  | (some n, s) :: l => (if s ≠ 1 then env n else 0) :: bidx env l
  | (none, _) :: l => 0 :: bidx env l

/-- Every batch axis of size ≠ 1 is named (decidable). -/
def AllNamed (l : List (Option String × Nat)) : Prop := ∀ p ∈ l, p.1 = none → p.2 = 1

theorem oset_append (acc : Inputs) (k : String) (v : Nat) (h : k ∉ acc.map (·.1)) :
    oset acc k v = acc ++ [(k, v)] := by
  induction acc with
  | nil => rfl
  | cons p acc ih =>
    obtain ⟨k', v'⟩ := p
    simp only [List.map_cons, List.mem_cons, not_or] at h
    simp only [oset]
    rw [if_neg (fun e => h.1 e.symm), ih h.2]; rfl

theorem packLoop_spec : ∀ (l : List (Option String × Nat)) (acc : Inputs),
    ((acc ++ packedSpec l).map (·.1)).Nodup → packLoop l acc = acc ++ packedSpec l
  | [], acc, _ => by simp [packLoop, packedSpec]
  | (none, s) :: l, acc, h => by
      simp only [packLoop, packedSpec] at h ⊢; exact packLoop_spec l acc h
  | (some n, s) :: l, acc, h => by
      simp only [packLoop, packedSpec] at h ⊢
      by_cases hs : s = 1
      · simp only [hs, ne_eq, not_true_eq_false, if_false] at h ⊢; exact packLoop_spec l acc h
      · simp only [ne_eq, hs, not_false_eq_true, if_true] at h ⊢
        have hn : n ∉ acc.map (·.1) := by
          intro hmem
          simp only [List.map_append, List.map_cons, List.nodup_append] at h
          exact h.2.2 n hmem n (by simp) rfl
        rw [oset_append acc n s hn, packLoop_spec l _ (by simpa using h)]
        simp

theorem prod_packed (es : List Nat) : ∀ (l : List (Option String × Nat)), AllNamed l →
    prod ((packedSpec l).map (·.2) ++ es) = prod (l.map (·.2) ++ es)
  | [], _ => rfl
  | (none, s) :: l, h => by
      have hs : s = 1 := h (none, s) (by simp) rfl
      have ih := prod_packed es l (fun p hp => h p (by simp [hp]))
      simp only [packedSpec, List.map_cons, List.cons_append, prod, hs, Nat.one_mul]; exact ih
  | (some n, s) :: l, h => by
      have ih := prod_packed es l (fun p hp => h p (by simp [hp]))
      by_cases hs : s = 1
      · simp only [packedSpec, hs, ne_eq, not_true_eq_false, if_false, List.map_cons,
          List.cons_append, prod, Nat.one_mul]; exact ih
      · simp only [packedSpec, ne_eq, hs, not_false_eq_true, if_true, List.map_cons,
          List.cons_append, prod, ih]

theorem ravel_packed (env : String → Nat) (es ev : List Nat) :
    ∀ (l : List (Option String × Nat)), AllNamed l →
    ravel ((packedSpec l).map (·.2) ++ es) ((packedSpec l).map (fun p => env p.1) ++ ev)
      = ravel (l.map (·.2) ++ es) (bidx env l ++ ev)
  | [], _ => rfl
  | (none, s) :: l, h => by
      have ih := ravel_packed env es ev l (fun p hp => h p (by simp [hp]))
      simp only [packedSpec, bidx, List.map_cons, List.cons_append, ravel, Nat.zero_mul,
        Nat.zero_add]; exact ih
  | (some n, s) :: l, h => by
      have hl : AllNamed l := fun p hp => h p (by simp [hp])
      have ih := ravel_packed env es ev l hl
      by_cases hs : s = 1
      · simp only [packedSpec, bidx, hs, ne_eq, not_true_eq_false, if_false, List.map_cons,
          List.cons_append, ravel, Nat.zero_mul, Nat.zero_add]; exact ih
      · simp only [packedSpec, bidx, ne_eq, hs, not_false_eq_true, if_true, List.map_cons,
          List.cons_append, ravel, ih, prod_packed es l hl]

theorem inb_append : ∀ (s i t j : List Nat), inb s i = true → inb t j = true →
    inb (s ++ t) (i ++ j) = true
  | [], [], _, _, _, h => h
  | [], _ :: _, _, _, h, _ => by simp [inb] at h
  | _ :: _, [], _, _, h, _ => by simp [inb] at h
  | s :: ss, i :: is, t, j, h, h2 => by
      simp only [inb, Bool.and_eq_true, decide_eq_true_eq, List.cons_append] at h ⊢
      exact ⟨h.1, inb_append ss is t j h.2 h2⟩

theorem inb_bidx (env : String → Nat) : ∀ (l : List (Option String × Nat)), AllNamed l →
    (∀ p ∈ packedSpec l, env p.1 < p.2) → inb (l.map (·.2)) (bidx env l) = true
  | [], _, _ => rfl
  | (none, s) :: l, h, he => by
      have hs : s = 1 := h (none, s) (by simp) rfl
      simp only [List.map_cons, bidx, inb, hs, Bool.and_eq_true, decide_eq_true_eq]
      exact ⟨by omega, inb_bidx env l (fun p hp => h p (by simp [hp])) (by simpa [packedSpec] using he)⟩
  | (some n, s) :: l, h, he => by
      have hl : AllNamed l := fun p hp => h p (by simp [hp])
      by_cases hs : s = 1
      · simp only [packedSpec, hs, ne_eq, not_true_eq_false, if_false] at he
        simp only [List.map_cons, bidx, inb, hs, ne_eq, not_true_eq_false, if_false,
          Bool.and_eq_true, decide_eq_true_eq]
        exact ⟨by omega, inb_bidx env l hl he⟩
      · simp only [packedSpec, ne_eq, hs, not_false_eq_true, if_true, List.mem_cons,
          forall_eq_or_imp] at he
        simp only [List.map_cons, bidx, inb, ne_eq, hs, not_false_eq_true, if_true,
          Bool.and_eq_true, decide_eq_true_eq]
        exact ⟨he.1, inb_bidx env l hl he.2⟩


theorem zip_append_right {β γ : Type} : ∀ (as : List β) (bs cs : List γ), as.length = bs.length →
    as.zip (bs ++ cs) = as.zip bs
  | [], _, _, _ => by simp
  | a :: as, [], _, h => by simp at h
  | a :: as, b :: bs, cs, h => by
      simp only [List.cons_append, List.zip_cons_cons, List.cons.injEq, true_and]
      exact zip_append_right as bs cs (by simpa using h)

theorem axisNames_length (d2n : List (Int × String)) (nb : Nat) :
    (axisNames d2n nb).length = nb := by simp [axisNames]

/-- `to_funsor(x, output, dim_to_name)` with a non-empty all-negative `dim_to_name`, unfolded. -/
theorem toFunsor_unfold (x : Arr α) (es : List Nat) (dtype : Option Nat)
    (d2n : List (Int × String)) (hd : d2n ≠ []) (hneg : ∀ p ∈ d2n, p.1 < 0) :
    toFunsor x (some es) dtype (some d2n) =
      match reshape x ((packLoop ((axisNames d2n (x.shape.length - es.length)).zip x.shape) []).map
          (·.2) ++ es) with
      | .ok data => .ok ⟨packLoop ((axisNames d2n (x.shape.length - es.length)).zip x.shape) [],
          data, dtype⟩
      | .error e => .error e := by
  cases d2n with
  | nil => exact absurd rfl hd
  | cons e d =>
    have : ((e :: d).all fun p => decide (p.1 < 0)) = true := by
      rw [List.all_eq_true]; intro p hp; exact decide_eq_true (hneg p hp)
    simp only [toFunsor, this, Bool.not_true, Bool.false_eq_true, if_false]
    rfl

/-- **toFunsor_sem.**  If every batch axis of size ≠ 1 is named (and the names used are distinct),
    `to_funsor` succeeds, its inputs are exactly the named non-trivial axes in axis order, and the
    value at every named point is the array entry at the corresponding index. -/
theorem toFunsor_sem (x : Arr α) (bs es : List Nat) (dtype : Option Nat)
    (d2n : List (Int × String)) (hd : d2n ≠ []) (hneg : ∀ p ∈ d2n, p.1 < 0)
    (hshape : x.shape = bs ++ es)
    (hnamed : AllNamed ((axisNames d2n bs.length).zip bs))
    (hnodup : ((packedSpec ((axisNames d2n bs.length).zip bs)).map (·.1)).Nodup) :
    ∃ f, toFunsor x (some es) dtype (some d2n) = .ok f ∧
      f.inputs = packedSpec ((axisNames d2n bs.length).zip bs) ∧ f.dtype = dtype ∧
      f.data.shape = f.sizes ++ es ∧
      ∀ env ev, (∀ p ∈ f.inputs, env p.1 < p.2) → inb es ev = true →
        f.atEnv env ev = x.get (bidx env ((axisNames d2n bs.length).zip bs) ++ ev) := by
  have hlen : (axisNames d2n bs.length).length = bs.length := axisNames_length _ _
  have hnb : x.shape.length - es.length = bs.length := by simp [hshape]
  have hzip : (axisNames d2n bs.length).zip x.shape = (axisNames d2n bs.length).zip bs := by
    rw [hshape]; exact zip_append_right _ _ _ hlen
  have hsnd : ((axisNames d2n bs.length).zip bs).map (·.2) = bs := by
    rw [List.map_snd_zip]; omega
  generalize hl : (axisNames d2n bs.length).zip bs = l at *
  have hpack : packLoop l [] = packedSpec l := by
    have := packLoop_spec l [] (by simpa using hnodup); simpa using this
  have hprod := prod_packed es l hnamed
  rw [hsnd] at hprod
  rw [toFunsor_unfold x es dtype d2n hd hneg, hnb, hzip, hpack]
  simp only [reshape, hshape, hprod, if_true]
  refine ⟨_, rfl, rfl, rfl, rfl, ?_⟩
  intro env ev henv hev
  simp only [Tensor.atEnv, Tensor.keys, List.map_map, Function.comp_def]
  have hr := ravel_packed env es ev l hnamed
  rw [hsnd] at hr
  rw [hr]
  have hin : inb (bs ++ es) (bidx env l ++ ev) = true := by
    have := inb_bidx env l hnamed henv
    rw [hsnd] at this
    exact inb_append _ _ _ _ this hev
  rw [unravel_ravel _ _ hin]


/-! ### the rejection branch -/

theorem prod_append : ∀ (a b : List Nat), prod (a ++ b) = prod a * prod b
  | [], b => by simp [prod]
  | x :: a, b => by simp only [List.cons_append, prod, prod_append a b, Nat.mul_assoc]

theorem prod_pos : ∀ (a : List Nat), (∀ s ∈ a, 0 < s) → 0 < prod a
  | [], _ => by simp [prod]
  | x :: a, h => by
      simp only [prod]
      exact Nat.mul_pos (h x (by simp)) (prod_pos a (fun s hs => h s (by simp [hs])))

theorem prod_oset_le : ∀ (acc : Inputs) (n : String) (s : Nat), (∀ p ∈ acc, 0 < p.2) → 0 < s →
    prod ((oset acc n s).map (·.2)) ≤ prod (acc.map (·.2)) * s ∧ (∀ p ∈ oset acc n s, 0 < p.2)
  | [], n, s, _, hs => by simp [oset, prod, hs]
  | (k', v') :: acc, n, s, h, hs => by
      have hv : 0 < v' := h (k', v') (by simp)
      have hacc : ∀ p ∈ acc, 0 < p.2 := fun p hp => h p (by simp [hp])
      simp only [oset]
      by_cases hk : k' = n
      · simp only [hk, if_true, List.map_cons, prod]
        refine ⟨?_, ?_⟩
        · calc s * prod (acc.map (·.2)) ≤ s * (v' * prod (acc.map (·.2))) :=
                Nat.mul_le_mul_left _ (Nat.le_mul_of_pos_left _ hv)
            _ = v' * prod (acc.map (·.2)) * s := Nat.mul_comm _ _
        · intro p hp
          simp only [List.mem_cons] at hp
          rcases hp with rfl | hp
          · exact hs
          · exact hacc p hp
      · have ih := prod_oset_le acc n s hacc hs
        simp only [hk, if_false, List.map_cons, prod]
        refine ⟨?_, ?_⟩
        · calc v' * prod ((oset acc n s).map (·.2)) ≤ v' * (prod (acc.map (·.2)) * s) :=
                Nat.mul_le_mul_left _ ih.1
            _ = v' * prod (acc.map (·.2)) * s := (Nat.mul_assoc _ _ _).symm
        · intro p hp
          simp only [List.mem_cons] at hp
          rcases hp with rfl | hp
          · exact hv
          · exact ih.2 p hp

theorem prod_packLoop_le : ∀ (l : List (Option String × Nat)) (acc : Inputs),
    (∀ p ∈ acc, 0 < p.2) → (∀ p ∈ l, 0 < p.2) →
    prod ((packLoop l acc).map (·.2)) ≤ prod (acc.map (·.2)) * prod (l.map (·.2))
  | [], acc, _, _ => by simp [packLoop, prod]
  | (none, s) :: l, acc, ha, hl => by
      have hs : 0 < s := hl (none, s) (by simp)
      have ih := prod_packLoop_le l acc ha (fun p hp => hl p (by simp [hp]))
      simp only [packLoop, List.map_cons, prod]
      calc _ ≤ prod (acc.map (·.2)) * prod (l.map (·.2)) := ih
        _ ≤ prod (acc.map (·.2)) * (s * prod (l.map (·.2))) :=
            Nat.mul_le_mul_left _ (Nat.le_mul_of_pos_left _ hs)
  | (some n, s) :: l, acc, ha, hl => by
      have hs : 0 < s := hl (some n, s) (by simp)
      have hl' : ∀ p ∈ l, 0 < p.2 := fun p hp => hl p (by simp [hp])
      simp only [packLoop, List.map_cons, prod]
      by_cases h1 : s = 1
      · simp only [h1, ne_eq, not_true_eq_false, if_false, Nat.one_mul]
        exact prod_packLoop_le l acc ha hl'
      · simp only [ne_eq, h1, not_false_eq_true, if_true]
        have ho := prod_oset_le acc n s ha hs
        calc _ ≤ prod ((oset acc n s).map (·.2)) * prod (l.map (·.2)) :=
              prod_packLoop_le l _ ho.2 hl'
          _ ≤ prod (acc.map (·.2)) * s * prod (l.map (·.2)) := Nat.mul_le_mul_right _ ho.1
          _ = prod (acc.map (·.2)) * (s * prod (l.map (·.2))) := Nat.mul_assoc _ _ _

theorem prod_packLoop_lt : ∀ (l : List (Option String × Nat)) (acc : Inputs),
    (∀ p ∈ acc, 0 < p.2) → (∀ p ∈ l, 0 < p.2) → ¬ AllNamed l →
    prod ((packLoop l acc).map (·.2)) < prod (acc.map (·.2)) * prod (l.map (·.2))
  | [], acc, _, _, hn => absurd (fun _ hp => by simp at hp) hn
  | (none, s) :: l, acc, ha, hl, hn => by
      have hs : 0 < s := hl (none, s) (by simp)
      have hl' : ∀ p ∈ l, 0 < p.2 := fun p hp => hl p (by simp [hp])
      have hle := prod_packLoop_le l acc ha hl'
      have hpa : 0 < prod (acc.map (·.2)) :=
        prod_pos _ (by intro s hs; simp only [List.mem_map] at hs; obtain ⟨p, hp, rfl⟩ := hs; exact ha p hp)
      have hpl : 0 < prod (l.map (·.2)) :=
        prod_pos _ (by intro s hs; simp only [List.mem_map] at hs; obtain ⟨p, hp, rfl⟩ := hs; exact hl' p hp)
      simp only [packLoop, List.map_cons, prod]
      by_cases h1 : s = 1
      · -- this axis is fine; the offending one is further right
        have hn' : ¬ AllNamed l := by
          intro hall; apply hn; intro p hp
          simp only [List.mem_cons] at hp
          rcases hp with rfl | hp
          · intro _; exact h1
          · exact hall p hp
        simp only [h1, Nat.one_mul]
        exact prod_packLoop_lt l acc ha hl' hn'
      · have h2 : 2 ≤ s := by omega
        calc _ ≤ prod (acc.map (·.2)) * prod (l.map (·.2)) := hle
          _ < prod (acc.map (·.2)) * (s * prod (l.map (·.2))) := by
              apply Nat.mul_lt_mul_of_pos_left _ hpa
              calc prod (l.map (·.2)) = 1 * prod (l.map (·.2)) := (Nat.one_mul _).symm
                _ < s * prod (l.map (·.2)) := Nat.mul_lt_mul_of_pos_right (by omega) hpl
  | (some n, s) :: l, acc, ha, hl, hn => by
      have hs : 0 < s := hl (some n, s) (by simp)
      have hl' : ∀ p ∈ l, 0 < p.2 := fun p hp => hl p (by simp [hp])
      have hn' : ¬ AllNamed l := by
        intro hall; apply hn; intro p hp
        simp only [List.mem_cons] at hp
        rcases hp with rfl | hp
        · intro h; simp at h
        · exact hall p hp
      simp only [packLoop, List.map_cons, prod]
      by_cases h1 : s = 1
      · simp only [h1, ne_eq, not_true_eq_false, if_false, Nat.one_mul]
        exact prod_packLoop_lt l acc ha hl' hn'
      · simp only [ne_eq, h1, not_false_eq_true, if_true]
        have ho := prod_oset_le acc n s ha hs
        have hpl : 0 < prod (l.map (·.2)) :=
          prod_pos _ (by intro s hs; simp only [List.mem_map] at hs; obtain ⟨p, hp, rfl⟩ := hs; exact hl' p hp)
        calc _ < prod ((oset acc n s).map (·.2)) * prod (l.map (·.2)) :=
              prod_packLoop_lt l _ ho.2 hl' hn'
          _ ≤ prod (acc.map (·.2)) * s * prod (l.map (·.2)) := Nat.mul_le_mul_right _ ho.1
          _ = prod (acc.map (·.2)) * (s * prod (l.map (·.2))) := Nat.mul_assoc _ _ _

/-- **toFunsor_rejects_unnamed.**  With positive sizes, a batch axis of size ≠ 1 that has no name
    makes `to_funsor` raise `ValueError` (whatever else `dim_to_name` contains, duplicates
    included): nothing is ever silently folded into a neighbouring axis. -/
theorem toFunsor_rejects_unnamed (x : Arr α) (bs es : List Nat) (dtype : Option Nat)
    (d2n : List (Int × String)) (hd : d2n ≠ []) (hneg : ∀ p ∈ d2n, p.1 < 0)
    (hshape : x.shape = bs ++ es) (hpos : ∀ s ∈ bs ++ es, 0 < s)
    (hun : ¬ AllNamed ((axisNames d2n bs.length).zip bs)) :
    toFunsor x (some es) dtype (some d2n) = .error .valueError := by
  have hlen : (axisNames d2n bs.length).length = bs.length := axisNames_length _ _
  have hnb : x.shape.length - es.length = bs.length := by simp [hshape]
  have hzip : (axisNames d2n bs.length).zip x.shape = (axisNames d2n bs.length).zip bs := by
    rw [hshape]; exact zip_append_right _ _ _ hlen
  have hsnd : ((axisNames d2n bs.length).zip bs).map (·.2) = bs := by
    rw [List.map_snd_zip]; omega
  generalize hl : (axisNames d2n bs.length).zip bs = l at *
  have hlpos : ∀ p ∈ l, 0 < p.2 := by
    intro p hp
    have : p.2 ∈ l.map (·.2) := List.mem_map_of_mem hp
    rw [hsnd] at this
    exact hpos _ (by simp [this])
  have hlt := prod_packLoop_lt l [] (by simp) hlpos hun
  rw [hsnd] at hlt
  simp only [List.map_nil, prod, Nat.one_mul] at hlt
  have hes : 0 < prod es := prod_pos _ (fun s hs => hpos s (by simp [hs]))
  rw [toFunsor_unfold x es dtype d2n hd hneg, hnb, hzip]
  have hne : prod ((packLoop l []).map (·.2) ++ es) ≠ prod x.shape := by
    rw [hshape, prod_append, prod_append]
    exact Nat.ne_of_lt (Nat.mul_lt_mul_of_pos_right hlt hes)
  simp only [reshape, hne, if_false]


/-! ### reshape-equivalence, identity permutation, sorting -/

/-- `r` has the same row-major buffer as `x` (possibly under another shape). -/
def IsReshapeOf (r x : Arr α) : Prop :=
  prod r.shape = prod x.shape ∧
    ∀ idx, inb r.shape idx = true → r.get idx = x.get (unravel x.shape (ravel r.shape idx))

theorem reshape_isReshape (a r : Arr α) (s : List Nat) (h : reshape a s = .ok r) :
    r.shape = s ∧ IsReshapeOf r a := by
  unfold reshape at h
  split at h
  · rename_i hp
    cases h
    exact ⟨rfl, hp, fun _ _ => rfl⟩
  · cases h

theorem isReshape_trans (a b c : Arr α) (h1 : IsReshapeOf b a) (h2 : IsReshapeOf c b) :
    IsReshapeOf c a := by
  refine ⟨h2.1.trans h1.1, ?_⟩
  intro idx hidx
  have hlt : ravel c.shape idx < prod b.shape := by rw [← h2.1]; exact ravel_lt _ _ hidx
  rw [h2.2 idx hidx, h1.2 _ (inb_unravel _ _ hlt), ravel_unravel _ _ hlt]

theorem isReshape_toFlat (r x : Arr α) (h : IsReshapeOf r x) : r.toFlat = x.toFlat := by
  unfold Arr.toFlat
  rw [h.1]
  apply List.map_congr_left
  intro k hk
  have hk' : k < prod r.shape := by rw [h.1]; simpa using hk
  rw [h.2 _ (inb_unravel _ _ hk'), ravel_unravel _ _ hk']

theorem pos_lt_of_mem {β : Type} [DecidableEq β] (a : β) : ∀ (l : List β), a ∈ l → pos a l < l.length
  | [], h => by simp at h
  | b :: l, h => by
      simp only [pos]
      by_cases hb : b = a
      · simp [hb]
      · simp only [hb, if_false, List.length_cons]
        have : a ∈ l := by
          simp only [List.mem_cons] at h
          rcases h with h | h
          · exact absurd h.symm hb
          · exact h
        have := pos_lt_of_mem a l this
        omega

theorem getElem_pos {β : Type} [DecidableEq β] (a : β) : ∀ (l : List β) (h : pos a l < l.length),
    l[pos a l] = a
  | [], h => by simp at h
  | b :: l, h => by
      by_cases hb : b = a
      · simp [pos, hb]
      · simp only [pos, hb, if_false, List.length_cons] at h ⊢
        simp only [List.getElem_cons_succ]
        exact getElem_pos a l (by omega)

theorem pos_getElem {β : Type} [DecidableEq β] : ∀ (l : List β) (i : Nat) (h : i < l.length),
    l.Nodup → pos l[i] l = i
  | [], i, h, _ => by simp at h
  | b :: l, 0, _, _ => by simp [pos]
  | b :: l, i + 1, h, hn => by
      simp only [List.nodup_cons] at hn
      have hi : i < l.length := by simpa using h
      simp only [List.getElem_cons_succ, pos]
      have hmem : l[i] ∈ l := List.getElem_mem _
      have hb : b ≠ l[i] := fun e => hn.1 (e ▸ hmem)
      simp only [hb, if_false]
      rw [pos_getElem l i hi hn.2]

theorem map_pos_self {β : Type} [DecidableEq β] (l : List β) (hn : l.Nodup) :
    l.map (fun d => pos d l) = List.range l.length := by
  apply List.ext_getElem
  · simp
  · intro i h1 h2
    simp only [List.getElem_map, List.getElem_range]
    exact pos_getElem l i (by simpa using h1) hn

theorem gather_range (v : List Nat) : gather v (List.range v.length) = v := by
  apply List.ext_getElem
  · simp [gather]
  · intro i h1 h2
    simp only [gather, List.getElem_map, List.getElem_range]
    simp only [gather, List.length_map, List.length_range] at h1
    simp [List.getD_eq_getElem?_getD, h1]

theorem invPerm_range (n : Nat) : invPerm (List.range n) = List.range n := by
  unfold invPerm
  rw [List.length_range]
  exact (map_pos_self (List.range n) List.nodup_range).trans (by simp)

theorem isPerm_range (n : Nat) : isPerm (List.range n) n = true := by
  simp [isPerm]

theorem permute_id_isReshape (a r : Arr α) (h : permute a (List.range a.shape.length) = .ok r) :
    r.shape = a.shape ∧ IsReshapeOf r a := by
  unfold permute at h
  rw [if_pos (isPerm_range _)] at h
  cases h
  refine ⟨gather_range _, by simp only [gather_range], ?_⟩
  intro idx hidx
  simp only [gather_range] at hidx ⊢
  have hl := inb_length _ _ hidx
  rw [invPerm_range, ← hl, gather_range, unravel_ravel _ _ hidx]

theorem sortInts_of_sorted : ∀ (l : List Int), l.Pairwise (· < ·) → sortInts l = l
  | [], _ => rfl
  | [a], _ => rfl
  | a :: b :: l, h => by
      simp only [List.pairwise_cons] at h
      have ih := sortInts_of_sorted (b :: l) (by simp only [List.pairwise_cons]; exact h.2)
      simp only [sortInts] at ih ⊢
      rw [ih]
      have : a ≤ b := Int.le_of_lt (h.1 b (by simp))
      simp [insertSorted, this]


/-! ### tensor_to_data after tensor_to_funsor -/

/-- The (negative) dims of the axes that survive packing, `off` being the dim of the first axis. -/
def keptDims : Int → List (Option String × Nat) → List Int
  | _, [] => []
  | off, (some _, s) :: l => if s ≠ 1 then off :: keptDims (off + 1) l else keptDims (off + 1) l
  | off, (none, _) :: l => keptDims (off + 1) l

theorem keptDims_bounds : ∀ (off : Int) (l : List (Option String × Nat)),
    ∀ d ∈ keptDims off l, off ≤ d ∧ d < off + l.length
  | _, [], d, h => by simp [keptDims] at h
  | off, (none, s) :: l, d, h => by
      have := keptDims_bounds (off + 1) l d (by simpa [keptDims] using h)
      simp only [List.length_cons]; omega
  | off, (some n, s) :: l, d, h => by
      simp only [keptDims] at h
      simp only [List.length_cons]
      by_cases hs : s = 1
      · simp only [hs, ne_eq, not_true_eq_false, if_false] at h
        have := keptDims_bounds (off + 1) l d h; omega
      · simp only [ne_eq, hs, not_false_eq_true, if_true, List.mem_cons] at h
        rcases h with rfl | h
        · omega
        · have := keptDims_bounds (off + 1) l d h; omega

theorem keptDims_sorted : ∀ (off : Int) (l : List (Option String × Nat)),
    (keptDims off l).Pairwise (· < ·)
  | _, [] => by simp [keptDims]
  | off, (none, s) :: l => by simpa [keptDims] using keptDims_sorted (off + 1) l
  | off, (some n, s) :: l => by
      simp only [keptDims]
      by_cases hs : s = 1
      · simpa [hs] using keptDims_sorted (off + 1) l
      · simp only [ne_eq, hs, not_false_eq_true, if_true, List.pairwise_cons]
        refine ⟨?_, keptDims_sorted (off + 1) l⟩
        intro d hd
        have := keptDims_bounds (off + 1) l d hd; omega

theorem keptDims_length : ∀ (off : Int) (l : List (Option String × Nat)),
    (keptDims off l).length = (packedSpec l).length
  | _, [] => rfl
  | off, (none, s) :: l => by simpa [keptDims, packedSpec] using keptDims_length (off + 1) l
  | off, (some n, s) :: l => by
      by_cases hs : s = 1
      · simpa [keptDims, packedSpec, hs] using keptDims_length (off + 1) l
      · simpa [keptDims, packedSpec, hs] using keptDims_length (off + 1) l

/-- `name_to_dim` sends the name on axis `j` to dim `off + j`. -/
def Consistent (n2d : List (String × Int)) (off : Int) (l : List (Option String × Nat)) : Prop :=
  ∀ (j : Nat) (n : String), (l[j]?).map (·.1) = some (some n) → lookup n n2d = some (off + j)

theorem consistent_tail (n2d : List (String × Int)) (off : Int) (p : Option String × Nat)
    (l : List (Option String × Nat)) (h : Consistent n2d off (p :: l)) :
    Consistent n2d (off + 1) l := by
  intro j n hj
  have := h (j + 1) n (by simpa using hj)
  rw [this]; congr 1; push_cast; omega

theorem mapM_lookup_packed (n2d : List (String × Int)) : ∀ (off : Int)
    (l : List (Option String × Nat)), Consistent n2d off l →
    ((packedSpec l).map (·.1)).mapM (fun k => lookup k n2d) = some (keptDims off l)
  | _, [], _ => rfl
  | off, (none, s) :: l, h => by
      simpa [packedSpec, keptDims] using mapM_lookup_packed n2d (off + 1) l (consistent_tail _ _ _ _ h)
  | off, (some n, s) :: l, h => by
      have ih := mapM_lookup_packed n2d (off + 1) l (consistent_tail _ _ _ _ h)
      by_cases hs : s = 1
      · simpa [packedSpec, keptDims, hs] using ih
      · have h0 : lookup n n2d = some off := by simpa using h 0 n (by simp)
        simp only [packedSpec, keptDims, ne_eq, hs, not_false_eq_true, if_true, List.map_cons,
          List.mapM_cons, h0, ih]
        rfl

theorem scatter_general : ∀ (l : List (Option String × Nat)) (pre : List Nat), AllNamed l →
    scatterDims ((keptDims (-(l.length : Int)) l).zip ((packedSpec l).map (·.2)))
      (pre ++ List.replicate l.length 1) = .ok (pre ++ l.map (·.2))
  | [], pre, _ => by simp [keptDims, packedSpec, scatterDims]
  | (none, s) :: l, pre, h => by
      have hs : s = 1 := h (none, s) (by simp) rfl
      have ih := scatter_general l (pre ++ [1]) (fun p hp => h p (by simp [hp]))
      have e : (-((l.length + 1 : Nat) : Int)) + 1 = -(l.length : Int) := by push_cast; omega
      simp only [keptDims, packedSpec, List.length_cons, e, List.replicate_succ, List.map_cons, hs]
      simpa using ih
  | (some n, s) :: l, pre, h => by
      have hl : AllNamed l := fun p hp => h p (by simp [hp])
      have e : (-((l.length + 1 : Nat) : Int)) + 1 = -(l.length : Int) := by push_cast; omega
      by_cases hs : s = 1
      · have ih := scatter_general l (pre ++ [1]) hl
        simp only [keptDims, packedSpec, List.length_cons, e, hs, ne_eq, not_true_eq_false, if_false,
          List.replicate_succ, List.map_cons]
        simpa using ih
      · have ih := scatter_general l (pre ++ [s]) hl
        simp only [keptDims, packedSpec, List.length_cons, e, ne_eq, hs, not_false_eq_true, if_true,
          List.map_cons, List.zip_cons_cons, scatterDims, setNeg]
        have c : (-((l.length + 1 : Nat) : Int)) < 0 ∧
            -(-((l.length + 1 : Nat) : Int)) ≤ ((pre ++ List.replicate (l.length + 1) 1).length : Int) := by
          simp only [List.length_append, List.length_replicate]; push_cast; omega
        rw [if_pos c]
        have hpos : (pre ++ List.replicate (l.length + 1) 1).length
            - (-(-((l.length + 1 : Nat) : Int))).toNat = pre.length := by
          simp only [List.length_append, List.length_replicate, Int.neg_neg, Int.toNat_natCast]; omega
        rw [hpos]
        have hset : (pre ++ List.replicate (l.length + 1) 1).set pre.length s
            = (pre ++ [s]) ++ List.replicate l.length 1 := by
          simp [List.replicate_succ]
        simp only [hset]
        simpa using ih

theorem scatter_top : ∀ (l : List (Option String × Nat)), AllNamed l →
    ∀ d0 rest, keptDims (-(l.length : Int)) l = d0 :: rest →
    ∃ k, k ≤ l.length ∧
      scatterDims ((keptDims (-(l.length : Int)) l).zip ((packedSpec l).map (·.2)))
        (List.replicate (-d0).toNat 1) = .ok ((l.map (·.2)).drop k) ∧
      ∀ s ∈ (l.map (·.2)).take k, s = 1
  | [], _, d0, rest, hk => by simp [keptDims] at hk
  | (none, s) :: l, h, d0, rest, hk => by
      have hs : s = 1 := h (none, s) (by simp) rfl
      have e : (-((l.length + 1 : Nat) : Int)) + 1 = -(l.length : Int) := by push_cast; omega
      simp only [keptDims, List.length_cons, e] at hk
      obtain ⟨k, hk1, hk2, hk3⟩ := scatter_top l (fun p hp => h p (by simp [hp])) d0 rest hk
      refine ⟨k + 1, by simp; omega, ?_, ?_⟩
      · simp only [keptDims, packedSpec, List.length_cons, e, List.map_cons, List.drop_succ_cons]
        exact hk2
      · intro s' hs'
        simp only [List.map_cons, List.take_succ_cons, List.mem_cons] at hs'
        rcases hs' with rfl | hs'
        · exact hs
        · exact hk3 s' hs'
  | (some n, s) :: l, h, d0, rest, hk => by
      have hl : AllNamed l := fun p hp => h p (by simp [hp])
      have e : (-((l.length + 1 : Nat) : Int)) + 1 = -(l.length : Int) := by push_cast; omega
      by_cases hs : s = 1
      · simp only [keptDims, List.length_cons, e, hs, ne_eq, not_true_eq_false, if_false] at hk
        obtain ⟨k, hk1, hk2, hk3⟩ := scatter_top l hl d0 rest hk
        refine ⟨k + 1, by simp; omega, ?_, ?_⟩
        · simp only [keptDims, packedSpec, List.length_cons, e, hs, ne_eq, not_true_eq_false,
            if_false, List.map_cons, List.drop_succ_cons]
          exact hk2
        · intro s' hs'
          simp only [List.map_cons, List.take_succ_cons, List.mem_cons] at hs'
          rcases hs' with rfl | hs'
          · exact hs
          · exact hk3 s' hs'
      · have hd0 : d0 = -((l.length + 1 : Nat) : Int) := by
          simp only [keptDims, List.length_cons, ne_eq, hs, not_false_eq_true, if_true,
            List.cons.injEq] at hk
          exact hk.1.symm
        refine ⟨0, by simp, ?_, by simp⟩
        have := scatter_general ((some n, s) :: l) [] h
        simp only [List.nil_append, List.length_cons] at this
        rw [hd0]
        simpa using this


/-- `tensor_to_data` unfolded along its success path. -/
theorem toData_steps (f : Tensor α) (n2d : List (String × Int)) (hne : n2d ≠ [])
    (hin : f.inputs ≠ []) (hneg : ∀ p ∈ n2d, p.2 < 0)
    (data1 : Arr α) (h1 : reshape f.data (f.sizes ++ f.outShape) = .ok data1)
    (unsorted : List Int) (h2 : f.keys.mapM (fun k => lookup k n2d) = some unsorted)
    (data2 : Arr α)
    (h3 : permute data1 ((sortInts unsorted).map (fun d => pos d unsorted)
      ++ List.range' (sortInts unsorted).length f.outShape.length) = .ok data2)
    (d0 : Int) (rest : List Int) (h4 : sortInts unsorted = d0 :: rest)
    (bshape : List Nat)
    (h5 : scatterDims ((sortInts unsorted).zip data2.shape) (List.replicate (-d0).toNat 1)
      = .ok bshape) :
    toData f (some n2d) = reshape data2 (bshape ++ f.outShape) := by
  have e1 : n2d.isEmpty = false := by cases n2d <;> simp_all
  have e2 : f.inputs.isEmpty = false := by cases hf : f.inputs <;> simp_all
  have e3 : (n2d.all fun p => decide (p.2 < 0)) = true := by
    rw [List.all_eq_true]; intro p hp; exact decide_eq_true (hneg p hp)
  unfold toData
  simp only [e1, e2, e3, Bool.or_self, Bool.false_eq_true, if_false, Bool.not_true, h1, h2, h3]
  rw [h4] at h5 ⊢
  dsimp only
  rw [h5]

def swapPairs (d : List (Int × String)) : List (String × Int) := d.map fun p => (p.2, p.1)

theorem lookup_mem {κ β : Type} [DecidableEq κ] (k : κ) (v : β) : ∀ (d : List (κ × β)),
    lookup k d = some v → (k, v) ∈ d
  | [], h => by simp [lookup] at h
  | (k', v') :: r, h => by
      simp only [lookup] at h
      by_cases hk : k' = k
      · simp only [hk, if_true, Option.some.injEq] at h; simp [hk, h]
      · simp only [hk, if_false] at h
        exact List.mem_cons_of_mem _ (lookup_mem k v r h)

theorem lookup_swap (k : Int) (v : String) : ∀ (d : List (Int × String)),
    (d.map (·.2)).Nodup → lookup k d = some v → lookup v (swapPairs d) = some k
  | [], _, h => by simp [lookup] at h
  | (k', v') :: r, hn, h => by
      simp only [List.map_cons, List.nodup_cons] at hn
      simp only [lookup] at h
      simp only [swapPairs, List.map_cons, lookup]
      by_cases hk : k' = k
      · simp only [hk, if_true, Option.some.injEq] at h; simp [hk, h]
      · simp only [hk, if_false] at h
        have hmem : v ∈ r.map (·.2) := List.mem_map_of_mem (f := (·.2)) (lookup_mem k v r h)
        have hv : v' ≠ v := fun e => hn.1 (e ▸ hmem)
        simp only [hv, if_false]
        exact lookup_swap k v r hn.2 h

theorem consistent_axisNames (d2n : List (Int × String)) (hinj : (d2n.map (·.2)).Nodup)
    (bs : List Nat) :
    Consistent (swapPairs d2n) (-(bs.length : Int)) ((axisNames d2n bs.length).zip bs) := by
  intro j n hj
  cases hz : ((axisNames d2n bs.length).zip bs)[j]? with
  | none => simp [hz] at hj
  | some z =>
    rw [hz] at hj
    simp only [Option.map_some, Option.some.injEq] at hj
    have := (List.getElem?_zip_eq_some.mp hz).1
    rw [hj] at this
    simp only [axisNames, List.getElem?_map] at this
    cases hr : (List.range bs.length)[j]? with
    | none => simp [hr] at this
    | some j' =>
      have hj' : j' = j := by
        obtain ⟨hlt, hv⟩ := List.getElem?_eq_some_iff.mp hr
        rw [List.getElem_range] at hv; exact hv.symm
      rw [hr, hj'] at this
      simp only [Option.map_some, Option.some.injEq] at this
      have := lookup_swap _ n d2n hinj this
      rw [this]; congr 1; omega

theorem packed_nil_all_one : ∀ (l : List (Option String × Nat)), AllNamed l → packedSpec l = [] →
    ∀ s ∈ l.map (·.2), s = 1
  | [], _, _ => by simp
  | (none, s) :: l, h, hp => by
      have hs : s = 1 := h (none, s) (by simp) rfl
      have ih := packed_nil_all_one l (fun p hp => h p (by simp [hp])) (by simpa [packedSpec] using hp)
      intro s' hs'
      simp only [List.map_cons, List.mem_cons] at hs'
      rcases hs' with rfl | hs'
      · exact hs
      · exact ih s' hs'
  | (some n, s) :: l, h, hp => by
      by_cases hs : s = 1
      · have ih := packed_nil_all_one l (fun p hp => h p (by simp [hp]))
          (by simpa [packedSpec, hs] using hp)
        intro s' hs'
        simp only [List.map_cons, List.mem_cons] at hs'
        rcases hs' with rfl | hs'
        · exact hs
        · exact ih s' hs'
      · simp [packedSpec, hs] at hp

theorem prod_drop_ones : ∀ (k : Nat) (l : List Nat), (∀ s ∈ l.take k, s = 1) →
    prod (l.drop k) = prod l
  | 0, l, _ => by simp
  | k + 1, [], _ => by simp
  | k + 1, a :: l, h => by
      have ha : a = 1 := h a (by simp)
      have ih := prod_drop_ones k l (fun s hs => h s (by simp [hs]))
      simp only [List.drop_succ_cons, prod, ha, Nat.one_mul, ih]

/-- `to_funsor` under the round-trip hypotheses, with its data exposed. -/
theorem toFunsor_ok (x : Arr α) (bs es : List Nat) (dtype : Option Nat)
    (d2n : List (Int × String)) (hd : d2n ≠ []) (hneg : ∀ p ∈ d2n, p.1 < 0)
    (hshape : x.shape = bs ++ es)
    (hnamed : AllNamed ((axisNames d2n bs.length).zip bs))
    (hnodup : ((packedSpec ((axisNames d2n bs.length).zip bs)).map (·.1)).Nodup) :
    ∃ data, reshape x ((packedSpec ((axisNames d2n bs.length).zip bs)).map (·.2) ++ es) = .ok data ∧
      toFunsor x (some es) dtype (some d2n)
        = .ok ⟨packedSpec ((axisNames d2n bs.length).zip bs), data, dtype⟩ := by
  have hlen : (axisNames d2n bs.length).length = bs.length := axisNames_length _ _
  have hnb : x.shape.length - es.length = bs.length := by simp [hshape]
  have hzip : (axisNames d2n bs.length).zip x.shape = (axisNames d2n bs.length).zip bs := by
    rw [hshape]; exact zip_append_right _ _ _ hlen
  have hsnd : ((axisNames d2n bs.length).zip bs).map (·.2) = bs := by
    rw [List.map_snd_zip]; omega
  generalize hl : (axisNames d2n bs.length).zip bs = l at *
  have hpack : packLoop l [] = packedSpec l := by
    have := packLoop_spec l [] (by simpa using hnodup); simpa using this
  have hprod := prod_packed es l hnamed
  rw [hsnd] at hprod
  rw [toFunsor_unfold x es dtype d2n hd hneg, hnb, hzip, hpack]
  simp only [reshape, hshape, hprod, if_true]
  exact ⟨_, rfl, rfl⟩

/-- **toData_toFunsor_roundtrip.**  For an injective, all-negative, non-empty `dim_to_name` that
    names every batch axis of size ≠ 1, `to_data(to_funsor(x, output, dim_to_name), inverse map)`
    succeeds and returns `x` up to leading size-1 batch axes: same row-major buffer, and the shape
    is `x.shape` with `k` leading 1s dropped. -/
theorem toData_toFunsor_roundtrip (x : Arr α) (bs es : List Nat) (dtype : Option Nat)
    (d2n : List (Int × String)) (hd : d2n ≠ []) (hneg : ∀ p ∈ d2n, p.1 < 0)
    (hinj : (d2n.map (·.2)).Nodup)
    (hshape : x.shape = bs ++ es)
    (hnamed : AllNamed ((axisNames d2n bs.length).zip bs))
    (hnodup : ((packedSpec ((axisNames d2n bs.length).zip bs)).map (·.1)).Nodup) :
    ∃ f r k, toFunsor x (some es) dtype (some d2n) = .ok f ∧
      toData f (some (swapPairs d2n)) = .ok r ∧
      k ≤ bs.length ∧ r.shape = (bs ++ es).drop k ∧ (∀ s ∈ bs.take k, s = 1) ∧
      IsReshapeOf r x ∧ r.toFlat = x.toFlat := by
  obtain ⟨data, hdata, hf⟩ := toFunsor_ok x bs es dtype d2n hd hneg hshape hnamed hnodup
  have hcons := consistent_axisNames d2n hinj bs
  have hlen : (axisNames d2n bs.length).length = bs.length := axisNames_length _ _
  have hsnd : ((axisNames d2n bs.length).zip bs).map (·.2) = bs := by
    rw [List.map_snd_zip]; omega
  have hll : ((axisNames d2n bs.length).zip bs).length = bs.length := by
    simp [List.length_zip, hlen]
  generalize hl : (axisNames d2n bs.length).zip bs = l at *
  obtain ⟨hdshape, hdre⟩ := reshape_isReshape _ _ _ hdata
  refine ⟨⟨packedSpec l, data, dtype⟩, ?_⟩
  by_cases hp : packedSpec l = []
  · -- nothing survives packing: to_data returns the data as is
    refine ⟨data, bs.length, hf, ?_, Nat.le_refl _, ?_, ?_, hdre, isReshape_toFlat _ _ hdre⟩
    · have e1 : (swapPairs d2n).isEmpty = false := by cases d2n <;> simp_all [swapPairs]
      simp [toData, e1, hp]
    · rw [hdshape, hp]; simp
    · have := packed_nil_all_one l hnamed hp
      rw [hsnd] at this
      simpa using this
  · -- general case
    have hkl := keptDims_length (-(bs.length : Int)) l
    cases hkd : keptDims (-(bs.length : Int)) l with
    | nil => rw [hkd] at hkl; cases hq : packedSpec l <;> simp_all
    | cons d0 rest =>
      have hsorted := sortInts_of_sorted _ (keptDims_sorted (-(bs.length : Int)) l)
      have hnd : (keptDims (-(bs.length : Int)) l).Nodup :=
        (keptDims_sorted (-(bs.length : Int)) l).imp (fun h => Int.ne_of_lt h)
      let f : Tensor α := ⟨packedSpec l, data, dtype⟩
      have hout : f.outShape = es := by
        simp only [f, Tensor.outShape, hdshape]
        exact List.drop_left' (by simp)
      have hsizes : f.sizes = (packedSpec l).map (·.2) := rfl
      -- step 1: the no-op reshape
      have h1 : ∃ data1, reshape f.data (f.sizes ++ f.outShape) = .ok data1 := by
        simp only [reshape, hout, hsizes, f, hdshape, if_true]; exact ⟨_, rfl⟩
      obtain ⟨data1, h1⟩ := h1
      obtain ⟨h1s, h1r⟩ := reshape_isReshape _ _ _ h1
      -- step 2: the dims
      have h2 : f.keys.mapM (fun k => lookup k (swapPairs d2n))
          = some (keptDims (-(bs.length : Int)) l) := by
        exact mapM_lookup_packed (swapPairs d2n) (-(bs.length : Int)) l hcons
      -- step 3: the permutation is the identity
      have hperm : (sortInts (keptDims (-(bs.length : Int)) l)).map
            (fun d => pos d (keptDims (-(bs.length : Int)) l))
          ++ List.range' (sortInts (keptDims (-(bs.length : Int)) l)).length f.outShape.length
          = List.range (f.sizes ++ f.outShape).length := by
        rw [hsorted, map_pos_self _ hnd, hkl, hout, hsizes]
        rw [List.range_eq_range', List.range_eq_range', List.length_append, List.length_map]
        have := @List.range'_append_1 0 (packedSpec l).length es.length
        simpa using this
      have h3 : ∃ data2, permute data1 (List.range data1.shape.length) = .ok data2 := by
        simp only [permute, isPerm_range, if_true]; exact ⟨_, rfl⟩
      obtain ⟨data2, h3⟩ := h3
      obtain ⟨h3s, h3r⟩ := permute_id_isReshape _ _ h3
      have h3' : permute data1 ((sortInts (keptDims (-(bs.length : Int)) l)).map
            (fun d => pos d (keptDims (-(bs.length : Int)) l))
          ++ List.range' (sortInts (keptDims (-(bs.length : Int)) l)).length f.outShape.length)
          = .ok data2 := by rw [hperm, ← h1s]; exact h3
      -- step 4: scattering the sizes into the batch shape
      have hkd' : keptDims (-(l.length : Int)) l = d0 :: rest := by rw [hll]; exact hkd
      obtain ⟨k, hk1, hk2, hk3⟩ := scatter_top l hnamed d0 rest hkd'
      rw [hll] at hk2 hk1
      rw [hsnd] at hk2 hk3
      have h4 : sortInts (keptDims (-(bs.length : Int)) l) = d0 :: rest := by rw [hsorted, hkd]
      have h5 : scatterDims ((sortInts (keptDims (-(bs.length : Int)) l)).zip data2.shape)
          (List.replicate (-d0).toNat 1) = .ok (bs.drop k) := by
        rw [hsorted, h3s, h1s, hsizes, hout, zip_append_right _ _ _ (by rw [hkl]; simp)]
        exact hk2
      -- step 5: the final reshape
      have hprodeq : prod (bs.drop k ++ f.outShape) = prod data2.shape := by
        rw [h3s, h1s, hsizes, hout, prod_append, prod_drop_ones k bs hk3, ← prod_append,
          prod_packed es l hnamed, hsnd]
      have h6 : ∃ r, reshape data2 (bs.drop k ++ f.outShape) = .ok r := by
        simp only [reshape, hprodeq, if_true]; exact ⟨_, rfl⟩
      obtain ⟨r, h6⟩ := h6
      obtain ⟨h6s, h6r⟩ := reshape_isReshape _ _ _ h6
      have hnegs : ∀ p ∈ swapPairs d2n, p.2 < 0 := by
        intro p hp
        simp only [swapPairs, List.mem_map] at hp
        obtain ⟨q, hq, rfl⟩ := hp
        exact hneg q hq
      have hne : swapPairs d2n ≠ [] := by cases d2n <;> simp_all [swapPairs]
      have hre : IsReshapeOf r x :=
        isReshape_trans _ _ _ hdre (isReshape_trans _ _ _ h1r (isReshape_trans _ _ _ h3r h6r))
      refine ⟨r, k, hf, ?_, hk1, ?_, hk3, hre, isReshape_toFlat _ _ hre⟩
      · rw [toData_steps f (swapPairs d2n) hne hp hnegs data1 h1 _ h2 data2 h3' d0 rest h4 _ h5]
        exact h6
      · rw [h6s, hout]; exact (List.drop_append_of_le_length hk1).symm


/-! ### permutations of named axes -/

theorem pos_inj_of_mem {β : Type} [DecidableEq β] (K : List β) (a b : β) (ha : a ∈ K) (hb : b ∈ K)
    (h : pos a K = pos b K) : a = b := by
  have h1 := getElem_pos a K (pos_lt_of_mem a K ha)
  have h2 := getElem_pos b K (pos_lt_of_mem b K hb)
  simp only [h] at h1
  exact h1.symm.trans h2

/-- The axis permutation built by `Tensor.align` / `align_tensor`: new axis `j` is old axis
    `pos K'[j] K`; event axes stay. -/
def axesPerm {β : Type} [DecidableEq β] (K K' : List β) (e : Nat) : List Nat :=
  K'.map (fun d => pos d K) ++ List.range' K'.length e

theorem axesPerm_length {β : Type} [DecidableEq β] (K K' : List β) (e : Nat) : (axesPerm K K' e).length = K'.length + e := by
  simp [axesPerm]

theorem axesPerm_nodup {β : Type} [DecidableEq β] (K K' : List β) (e : Nat) (hK' : K'.Nodup) (hsub : ∀ a ∈ K', a ∈ K)
    (hlen : K.length ≤ K'.length) : (axesPerm K K' e).Nodup := by
  unfold axesPerm
  rw [List.nodup_append]
  refine ⟨?_, List.nodup_range', ?_⟩
  · rw [List.Nodup, List.pairwise_map]
    exact List.Pairwise.imp_of_mem (fun {a b} ha hb hab h => hab (pos_inj_of_mem K a b (hsub a ha) (hsub b hb) h)) hK'
  · intro a ha b hb
    simp only [List.mem_map] at ha
    obtain ⟨k, hk, rfl⟩ := ha
    have := pos_lt_of_mem k K (hsub k hk)
    simp only [List.mem_range'_1] at hb
    omega


theorem getD_map_append_left {β : Type} [DecidableEq β] (K : List β) (h : β → Nat) (es : List Nat) (k : β)
    (hk : k ∈ K) : (K.map h ++ es).getD (pos k K) 0 = h k := by
  have hlt := pos_lt_of_mem k K hk
  rw [List.getD_eq_getElem?_getD, List.getElem?_append_left (by simpa using hlt),
    List.getElem?_map, List.getElem?_eq_getElem hlt, getElem_pos k K hlt]
  rfl

theorem getD_append_right (v es : List Nat) (t : Nat) (ht : t < es.length) :
    (v ++ es).getD (v.length + t) 0 = es[t] := by
  rw [List.getD_eq_getElem?_getD, List.getElem?_append_right (by omega)]
  simp [ht]

/-- (c) shape/indices of the permuted array: `gather (old) perm = new`. -/
theorem gather_axesPerm {β : Type} [DecidableEq β] (K K' : List β) (h : β → Nat) (es : List Nat)
    (hsub : ∀ a ∈ K', a ∈ K) (hlen : K'.length = K.length) :
    gather (K.map h ++ es) (axesPerm K K' es.length) = K'.map h ++ es := by
  unfold gather axesPerm
  rw [List.map_append]
  congr 1
  · rw [List.map_map]
    apply List.map_congr_left
    intro k hk
    exact getD_map_append_left K h es k (hsub k hk)
  · apply List.ext_getElem
    · simp
    · intro t h1 h2
      simp only [List.getElem_map, List.getElem_range']
      have := getD_append_right (K.map h) es t h2
      simp only [List.length_map] at this
      rw [hlen, Nat.one_mul]; exact this

theorem axesPerm_getElem_left {β : Type} [DecidableEq β] (K K' : List β) (e : Nat) (j : Nat) (hj : j < K'.length) :
    (axesPerm K K' e)[j]'(by rw [axesPerm_length]; omega) = pos K'[j] K := by
  unfold axesPerm
  rw [List.getElem_append_left (by simpa using hj)]
  simp

theorem axesPerm_getElem_right {β : Type} [DecidableEq β] (K K' : List β) (e : Nat) (t : Nat) (ht : t < e) :
    (axesPerm K K' e)[K'.length + t]'(by rw [axesPerm_length]; omega) = K'.length + t := by
  unfold axesPerm
  rw [List.getElem_append_right (by simp)]
  simp

/-- (b) reading the permuted array at the new index list reads the old array at the old one. -/
theorem gather_invPerm_axesPerm {β : Type} [DecidableEq β] (K K' : List β) (g : β → Nat) (ev : List Nat)
    (hK : K.Nodup) (hK' : K'.Nodup) (hiff : ∀ a, a ∈ K' ↔ a ∈ K) (hlen : K'.length = K.length) :
    gather (K'.map g ++ ev) (invPerm (axesPerm K K' ev.length)) = K.map g ++ ev := by
  have hnd := axesPerm_nodup K K' ev.length hK' (fun a ha => (hiff a).mp ha) (by omega)
  unfold gather invPerm
  rw [axesPerm_length, List.map_map]
  apply List.ext_getElem
  · simp [hlen]
  · intro i h1 h2
    simp only [List.length_map, List.length_range] at h1
    simp only [List.getElem_map, List.getElem_range, Function.comp_def]
    by_cases hi : i < K.length
    · -- a named axis
      have hmem : K[i] ∈ K' := (hiff _).mpr (List.getElem_mem _)
      have hj := pos_lt_of_mem K[i] K' hmem
      have hval : (axesPerm K K' ev.length)[pos K[i] K']'(by rw [axesPerm_length]; omega) = i := by
        rw [axesPerm_getElem_left K K' ev.length _ hj, getElem_pos K[i] K' hj, pos_getElem K i hi hK]
      have hpos : pos i (axesPerm K K' ev.length) = pos K[i] K' := by
        have := pos_getElem (axesPerm K K' ev.length) (pos K[i] K')
          (by rw [axesPerm_length]; omega) hnd
        rw [hval] at this; exact this
      rw [hpos, getD_map_append_left K' g ev K[i] hmem, List.getElem_append_left (by simpa using hi)]
      simp
    · -- an event axis
      have ht : i - K.length < ev.length := by omega
      have hi' : i = K'.length + (i - K.length) := by omega
      have hval : (axesPerm K K' ev.length)[K'.length + (i - K.length)]'(by
          rw [axesPerm_length]; omega) = i := by
        rw [axesPerm_getElem_right K K' ev.length _ ht]; omega
      have hpos : pos i (axesPerm K K' ev.length) = K'.length + (i - K.length) := by
        have := pos_getElem (axesPerm K K' ev.length) (K'.length + (i - K.length))
          (by rw [axesPerm_length]; omega) hnd
        rw [hval] at this; exact this
      have := getD_append_right (K'.map g) ev (i - K.length) ht
      simp only [List.length_map] at this
      rw [hpos, this, List.getElem_append_right (by simp; omega)]
      simp

theorem axesPerm_isPerm {β : Type} [DecidableEq β] (K K' : List β) (e : Nat)
    (hK : K.Nodup) (hK' : K'.Nodup) (hiff : ∀ a, a ∈ K' ↔ a ∈ K) (hlen : K'.length = K.length) :
    isPerm (axesPerm K K' e) (K.length + e) = true := by
  unfold isPerm
  simp only [Bool.and_eq_true, beq_iff_eq, List.all_eq_true, decide_eq_true_eq, List.mem_range]
  refine ⟨⟨by rw [axesPerm_length, hlen], ?_⟩, ?_⟩
  · intro a ha
    unfold axesPerm at ha
    simp only [List.mem_append, List.mem_map, List.mem_range'_1] at ha
    rcases ha with ⟨k, hk, rfl⟩ | ha
    · have := pos_lt_of_mem k K ((hiff k).mp hk); omega
    · omega
  · intro i hi
    by_cases hi' : i < K.length
    · have hmem : K[i] ∈ K' := (hiff _).mpr (List.getElem_mem _)
      have hj := pos_lt_of_mem K[i] K' hmem
      have hval : (axesPerm K K' e)[pos K[i] K']'(by rw [axesPerm_length]; omega) = i := by
        rw [axesPerm_getElem_left K K' e _ hj, getElem_pos K[i] K' hj, pos_getElem K i hi' hK]
      rw [← hval]; exact List.getElem_mem _
    · have ht : i - K.length < e := by omega
      have hval : (axesPerm K K' e)[K'.length + (i - K.length)]'(by
          rw [axesPerm_length]; omega) = i := by
        rw [axesPerm_getElem_right K K' e _ ht]; omega
      rw [← hval]; exact List.getElem_mem _


/-! ### OrderedDict.update -/

theorem oset_same : ∀ (d : Inputs) (k : String) (v : Nat), (d.map (·.1)).Nodup → (k, v) ∈ d →
    oset d k v = d
  | [], _, _, _, h => by simp at h
  | (k', v') :: d, k, v, hn, h => by
      simp only [List.map_cons, List.nodup_cons] at hn
      simp only [oset]
      by_cases hk : k' = k
      · simp only [hk, if_true]
        simp only [List.mem_cons, Prod.mk.injEq] at h
        rcases h with h | h
        · rw [h.2]
        · exact absurd (List.mem_map_of_mem (f := (·.1)) h) (hk ▸ hn.1)
      · simp only [hk, if_false]
        simp only [List.mem_cons, Prod.mk.injEq] at h
        rcases h with h | h
        · exact absurd h.1.symm hk
        · rw [oset_same d k v hn.2 h]

/-- `d.update(e)` when the two agree on common keys: `d` followed by the new entries of `e`. -/
theorem oupdate_spec : ∀ (e d : Inputs), (e.map (·.1)).Nodup → (d.map (·.1)).Nodup →
    (∀ p ∈ e, p.1 ∈ d.map (·.1) → p ∈ d) →
    oupdate d e = d ++ e.filter (fun p => decide (p.1 ∉ d.map (·.1)))
  | [], d, _, _, _ => by simp [oupdate]
  | (k, v) :: e, d, he, hd, hag => by
      simp only [List.map_cons, List.nodup_cons] at he
      have hstep : oupdate d ((k, v) :: e) = oupdate (oset d k v) e := by simp [oupdate]
      rw [hstep]
      by_cases hk : k ∈ d.map (·.1)
      · have hmem : (k, v) ∈ d := hag (k, v) (by simp) hk
        rw [oset_same d k v hd hmem,
          oupdate_spec e d he.2 hd (fun p hp => hag p (List.mem_cons_of_mem _ hp))]
        simp [hk]
      · rw [oset_append d k v hk]
        have hd' : ((d ++ [(k, v)]).map (·.1)).Nodup := by
          simp only [List.map_append, List.map_cons, List.map_nil, List.nodup_append]
          refine ⟨hd, by simp, ?_⟩
          intro a ha b hb
          simp only [List.mem_singleton] at hb
          rintro rfl; exact hk (hb ▸ ha)
        have hag' : ∀ p ∈ e, p.1 ∈ (d ++ [(k, v)]).map (·.1) → p ∈ d ++ [(k, v)] := by
          intro p hp hpk
          simp only [List.map_append, List.map_cons, List.map_nil, List.mem_append,
            List.mem_singleton] at hpk
          rcases hpk with hpk | hpk
          · exact List.mem_append_left _ (hag p (List.mem_cons_of_mem _ hp) hpk)
          · exact absurd (hpk ▸ List.mem_map_of_mem (f := (·.1)) hp) he.1
        rw [oupdate_spec e _ he.2 hd' hag']
        simp only [List.append_assoc, List.singleton_append, List.filter_cons, hk,
          not_false_eq_true, decide_true, if_true]
        congr 2
        apply List.filter_congr
        intro p hp
        have hpk : p.1 ≠ k := fun h => he.1 (h ▸ List.mem_map_of_mem (f := (·.1)) hp)
        simp [hpk]

theorem fromPairs_nodup (l : Inputs) (h : (l.map (·.1)).Nodup) : fromPairs l = l := by
  unfold fromPairs
  rw [oupdate_spec l [] h (by simp) (by simp)]
  simp

theorem lookup_of_mem_keys {β : Type} (k : String) : ∀ (d : List (String × β)), k ∈ d.map (·.1) →
    ∃ v, lookup k d = some v
  | [], h => by simp at h
  | (k', v') :: d, h => by
      simp only [lookup]
      by_cases hk : k' = k
      · exact ⟨v', by simp [hk]⟩
      · simp only [hk, if_false]
        simp only [List.map_cons, List.mem_cons] at h
        rcases h with h | h
        · exact absurd h.symm hk
        · exact lookup_of_mem_keys k d h

/-- The `(name, size)` pairs `Tensor.align` builds from `names`. -/
theorem namePairs_spec (inputs : Inputs) : ∀ (names : List String),
    (∀ n ∈ names, n ∈ inputs.map (·.1)) →
    (names.filterMap fun n => (lookup n inputs).map fun s => (n, s)).map (·.1) = names ∧
    ∀ p ∈ (names.filterMap fun n => (lookup n inputs).map fun s => (n, s)), p ∈ inputs
  | [], _ => by simp
  | n :: names, h => by
      obtain ⟨v, hv⟩ := lookup_of_mem_keys n inputs (h n (by simp))
      have ih := namePairs_spec inputs names (fun m hm => h m (by simp [hm]))
      simp only [List.filterMap_cons, hv, Option.map_some, List.map_cons, ih.1, true_and,
        List.mem_cons, forall_eq_or_imp]
      exact ⟨lookup_mem n v inputs hv, ih.2⟩


/-! ### Tensor.align -/

def sizeOf (d : Inputs) (k : String) : Nat := match lookup k d with | some s => s | none => 0

theorem lookup_of_mem_nodup : ∀ (d : Inputs) (k : String) (v : Nat), (d.map (·.1)).Nodup →
    (k, v) ∈ d → lookup k d = some v
  | [], _, _, _, h => by simp at h
  | (k', v') :: d, k, v, hn, h => by
      simp only [List.map_cons, List.nodup_cons] at hn
      simp only [lookup]
      simp only [List.mem_cons, Prod.mk.injEq] at h
      by_cases hk : k' = k
      · simp only [hk, if_true]
        rcases h with h | h
        · rw [h.2]
        · exact absurd (List.mem_map_of_mem (f := (·.1)) h) (hk ▸ hn.1)
      · simp only [hk, if_false]
        rcases h with h | h
        · exact absurd h.1.symm hk
        · exact lookup_of_mem_nodup d k v hn.2 h

theorem sizes_eq_map_sizeOf (d : Inputs) (hn : (d.map (·.1)).Nodup) (l : Inputs)
    (hl : ∀ p ∈ l, p ∈ d) : l.map (·.2) = (l.map (·.1)).map (sizeOf d) := by
  rw [List.map_map]
  apply List.map_congr_left
  intro p hp
  have := lookup_of_mem_nodup d p.1 p.2 hn (hl p hp)
  simp [sizeOf, this]

/-- **align_sem / align_inputs_order.**  For a well-formed tensor with distinct input names and a
    tuple of distinct names among them, `Tensor.align(names)` succeeds; the new inputs are `names`
    followed by the remaining inputs in their old order, with unchanged sizes; and the value at
    every named point (any `env`, any event index) is unchanged. -/
theorem align_sem (t : Tensor α) (names : List String) (hwf : t.WF) (hK : t.keys.Nodup)
    (hnames : names.Nodup) (hsub : ∀ n ∈ names, n ∈ t.keys) :
    ∃ t', t.align names = .ok t' ∧
      t'.keys = names ++ t.keys.filter (fun k => decide (k ∉ names)) ∧
      (∀ p, p ∈ t'.inputs ↔ p ∈ t.inputs) ∧ t'.dtype = t.dtype ∧
      t'.data.shape = t'.sizes ++ t.outShape ∧
      ∀ env ev, ev.length = t.outShape.length → t'.atEnv env ev = t.atEnv env ev := by
  have hall : (names.all fun n => decide (n ∈ t.keys)) = true := by
    rw [List.all_eq_true]; intro n hn; exact decide_eq_true (hsub n hn)
  unfold Tensor.align
  simp only [hall, Bool.not_true, Bool.false_eq_true, if_false]
  by_cases hearly : (names.isEmpty || decide (names = t.keys)) = true
  · -- early return: nothing to do
    simp only [hearly, if_true]
    refine ⟨t, rfl, ?_, fun _ => Iff.rfl, rfl, hwf, fun _ _ _ => rfl⟩
    simp only [Bool.or_eq_true, List.isEmpty_iff, decide_eq_true_eq] at hearly
    rcases hearly with h | h
    · simp only [h, List.nil_append, List.not_mem_nil, not_false_eq_true, decide_true]
      exact (List.filter_eq_self.mpr (fun _ _ => rfl)).symm
    · rw [h]
      have : t.keys.filter (fun k => decide (k ∉ t.keys)) = [] := by
        rw [List.filter_eq_nil_iff]; intro a ha; simp [ha]
      simp [this]
  · simp only [hearly, Bool.false_eq_true, if_false]
    -- the pairs built from `names`
    obtain ⟨hPk, hPm⟩ := namePairs_spec t.inputs names hsub
    generalize hP : (names.filterMap fun n => (lookup n t.inputs).map fun s => (n, s)) = P at *
    have hPn : (P.map (·.1)).Nodup := by rw [hPk]; exact hnames
    rw [fromPairs_nodup P hPn]
    have hag : ∀ p ∈ t.inputs, p.1 ∈ P.map (·.1) → p ∈ P := by
      intro p hp hpk
      simp only [List.mem_map] at hpk
      obtain ⟨q, hq, hqk⟩ := hpk
      have h1 := lookup_of_mem_nodup t.inputs q.1 q.2 hK (hPm q hq)
      have h2 := lookup_of_mem_nodup t.inputs p.1 p.2 hK hp
      rw [hqk, h2] at h1
      have : q = p := Prod.ext hqk (Option.some.inj h1).symm
      exact this ▸ hq
    rw [oupdate_spec t.inputs P hK hPn hag]
    generalize hI : P ++ t.inputs.filter (fun p => decide (p.1 ∉ P.map (·.1))) = I
    have hIk : I.map (·.1) = names ++ t.keys.filter (fun k => decide (k ∉ names)) := by
      rw [← hI, List.map_append, hPk]
      congr 1
      simp only [Tensor.keys, List.filter_map]
      rfl
    have hIm : ∀ p, p ∈ I ↔ p ∈ t.inputs := by
      intro p
      rw [← hI]
      simp only [List.mem_append, List.mem_filter, decide_eq_true_eq]
      constructor
      · rintro (h | h)
        · exact hPm p h
        · exact h.1
      · intro h
        by_cases hp : p.1 ∈ P.map (·.1)
        · exact Or.inl (hag p h hp)
        · exact Or.inr ⟨h, hp⟩
    have hIn : (I.map (·.1)).Nodup := by
      rw [hIk, List.nodup_append]
      refine ⟨hnames, hK.sublist List.filter_sublist, ?_⟩
      intro a ha b hb
      simp only [List.mem_filter, decide_eq_true_eq] at hb
      rintro rfl; exact hb.2 ha
    have hiff : ∀ a, a ∈ I.map (·.1) ↔ a ∈ t.keys := by
      intro a
      simp only [Tensor.keys, List.mem_map]
      constructor
      · rintro ⟨p, hp, rfl⟩; exact ⟨p, (hIm p).mp hp, rfl⟩
      · rintro ⟨p, hp, rfl⟩; exact ⟨p, (hIm p).mpr hp, rfl⟩
    have hlen : (I.map (·.1)).length = t.keys.length :=
      ((List.perm_ext_iff_of_nodup hIn hK).mpr hiff).length_eq
    have hshape : t.data.shape = t.keys.map (sizeOf t.inputs) ++ t.outShape := by
      rw [hwf, Tensor.sizes, sizes_eq_map_sizeOf t.inputs hK t.inputs (fun _ h => h)]; rfl
    have hperm : (I.map (·.1)).map (fun d => pos d t.keys)
        ++ List.range' ((I.map (·.1)).map (fun d => pos d t.keys)).length t.outShape.length
        = axesPerm t.keys (I.map (·.1)) t.outShape.length := by
      simp [axesPerm]
    rw [hperm]
    have hisperm : isPerm (axesPerm t.keys (I.map (·.1)) t.outShape.length) t.data.shape.length
        = true := by
      have := axesPerm_isPerm t.keys (I.map (·.1)) t.outShape.length hK hIn hiff hlen
      rw [hshape]; simpa using this
    simp only [permute, hisperm, if_true]
    refine ⟨_, rfl, hIk, hIm, rfl, ?_, ?_⟩
    · show gather t.data.shape _ = _
      rw [hshape, gather_axesPerm t.keys (I.map (·.1)) (sizeOf t.inputs) t.outShape
        (fun a ha => (hiff a).mp ha) hlen]
      congr 1
      exact (sizes_eq_map_sizeOf t.inputs hK I (fun p hp => (hIm p).mp hp)).symm
    · intro env ev hev
      simp only [Tensor.atEnv]
      rw [← hev]
      show t.data.get (gather ((I.map (·.1)).map env ++ ev)
        (invPerm (axesPerm t.keys (I.map (·.1)) ev.length))) = _
      rw [gather_invPerm_axesPerm t.keys (I.map (·.1)) env ev hK hIn hiff hlen]


/-! ### materialize -/

/-- **materialize_sem.**  Substituting `arange`s for the bounded-integer variables leaves the
    denoted function unchanged, at every named point. -/
theorem materialize_sem (ofNat : Nat → α) (ops : Nat → α → α → α) (renv : String → α)
    (env : String → Nat) : ∀ (t : Term α),
    (t.materialize ofNat).denote ofNat ops renv env = t.denote ofNat ops renv env
  | .var n s => by
      simp [Term.materialize, Term.denote, arange, Tensor.atEnv, Tensor.keys]
  | .rvar n => rfl
  | .tensor t => rfl
  | .binary op l r => by
      simp only [Term.materialize, Term.denote, materialize_sem ofNat ops renv env l,
        materialize_sem ofNat ops renv env r]
  | .slice n a b c d => by
      simp [Term.materialize, Term.denote, sliceTensor, Tensor.atEnv, Tensor.keys]

/-- Free bounded-integer variables of a term. -/
def intVars : Term α → List String
  | .var n _ => [n]
  | .rvar _ => []
  | .tensor _ => []
  | .binary _ l r => intVars l ++ intVars r
  | .slice n _ _ _ _ => [n]

/-- After `materialize` no lazy integer input is left. -/
theorem materialize_intVars (ofNat : Nat → α) : ∀ (t : Term α), intVars (t.materialize ofNat) = []
  | .var _ _ => rfl
  | .rvar _ => rfl
  | .tensor _ => rfl
  | .binary _ l r => by
      simp [Term.materialize, intVars, materialize_intVars ofNat l, materialize_intVars ofNat r]
  | .slice _ _ _ _ _ => rfl

/-- The arange tensor is well formed and is the identity on its index. -/
theorem arange_sem (ofNat : Nat → α) (n : String) (s : Nat) (env : String → Nat) :
    (arange ofNat n s).WF ∧ (arange ofNat n s).atEnv env [] = ofNat (env n) := by
  simp [arange, Tensor.WF, Tensor.sizes, Tensor.outShape, Tensor.atEnv, Tensor.keys]


/-! ### align_tensor -/

/-- Axes as (kept?, size, index).  Kept axes survive; dropped axes must have size 1. -/
abbrev Ax := Bool × Nat × Nat

def axKeepSizes (l : List Ax) : List Nat := (l.filter (·.1)).map (·.2.1)
def axKeepIdx (l : List Ax) : List Nat := (l.filter (·.1)).map (·.2.2)
def axAllSizes (l : List Ax) : List Nat := l.map (·.2.1)
def axAllIdx (l : List Ax) : List Nat := l.map fun q => if q.1 then q.2.2 else 0

theorem prod_unsqueeze (es : List Nat) : ∀ (l : List Ax), (∀ q ∈ l, q.1 = false → q.2.1 = 1) →
    prod (axAllSizes l ++ es) = prod (axKeepSizes l ++ es)
  | [], _ => rfl
  | (true, s, i) :: l, h => by
      have ih := prod_unsqueeze es l (fun q hq => h q (by simp [hq]))
      simp only [axAllSizes, axKeepSizes, List.map_cons, List.filter_cons, if_true,
        List.cons_append, prod] at ih ⊢
      rw [ih]
  | (false, s, i) :: l, h => by
      have hs : s = 1 := h (false, s, i) (by simp) rfl
      have ih := prod_unsqueeze es l (fun q hq => h q (by simp [hq]))
      simp only [axAllSizes, axKeepSizes, List.map_cons, List.filter_cons, Bool.false_eq_true,
        if_false, List.cons_append, prod, hs, Nat.one_mul] at ih ⊢
      exact ih

theorem ravel_unsqueeze (es ev : List Nat) : ∀ (l : List Ax),
    (∀ q ∈ l, q.1 = false → q.2.1 = 1) →
    ravel (axAllSizes l ++ es) (axAllIdx l ++ ev) = ravel (axKeepSizes l ++ es) (axKeepIdx l ++ ev)
  | [], _ => rfl
  | (true, s, i) :: l, h => by
      have hl : ∀ q ∈ l, q.1 = false → q.2.1 = 1 := fun q hq => h q (by simp [hq])
      have ih := ravel_unsqueeze es ev l hl
      have hp := prod_unsqueeze es l hl
      simp only [axAllSizes, axKeepSizes, axAllIdx, axKeepIdx, List.map_cons, List.filter_cons,
        if_true, List.cons_append, ravel] at ih hp ⊢
      rw [ih, hp]
  | (false, s, i) :: l, h => by
      have ih := ravel_unsqueeze es ev l (fun q hq => h q (by simp [hq]))
      simp only [axAllSizes, axKeepSizes, axAllIdx, axKeepIdx, List.map_cons, List.filter_cons,
        Bool.false_eq_true, if_false, List.cons_append, ravel, Nat.zero_mul, Nat.zero_add] at ih ⊢
      exact ih

theorem inb_axKeep : ∀ (l : List Ax), (∀ q ∈ l, q.1 = true → q.2.2 < q.2.1) →
    inb (axKeepSizes l) (axKeepIdx l) = true
  | [], _ => rfl
  | (true, s, i) :: l, h => by
      have ih := inb_axKeep l (fun q hq => h q (by simp [hq]))
      have hi : i < s := h (true, s, i) (by simp) rfl
      simp only [axKeepSizes, axKeepIdx, List.filter_cons, if_true, List.map_cons, inb,
        Bool.and_eq_true, decide_eq_true_eq] at ih ⊢
      exact ⟨hi, ih⟩
  | (false, s, i) :: l, h => by
      have ih := inb_axKeep l (fun q hq => h q (by simp [hq]))
      simp only [axKeepSizes, axKeepIdx, List.filter_cons, Bool.false_eq_true, if_false] at ih ⊢
      exact ih

/-- `clip` is the identity on the event part of an in-bounds index and zeroes exactly the
    broadcast axes. -/
theorem clip_inb : ∀ (s i : List Nat), inb s i = true → clip s i = i
  | [], [], _ => rfl
  | [], _ :: _, h => by simp [inb] at h
  | _ :: _, [], h => by simp [inb] at h
  | s :: ss, i :: is, h => by
      simp only [inb, Bool.and_eq_true, decide_eq_true_eq] at h
      simp only [clip, clip_inb ss is h.2]
      by_cases hs : s = 1
      · simp only [hs, if_true]; congr 1; omega
      · simp only [hs, if_false]


theorem lookup_none_of_not_mem {β : Type} (k : String) : ∀ (d : List (String × β)),
    k ∉ d.map (·.1) → lookup k d = none
  | [], _ => rfl
  | (k', v') :: d, h => by
      simp only [List.map_cons, List.mem_cons, not_or] at h
      have hk : ¬ k' = k := fun e => h.1 e.symm
      simp only [lookup, hk, if_false]
      exact lookup_none_of_not_mem k d h.2

def alignAxes (x : Tensor α) (newInputs : Inputs) (env : String → Nat) : List Ax :=
  newInputs.map fun p => (decide (p.1 ∈ x.keys), sizeOr1 x.inputs p, env p.1)

theorem canExpand_of (out : List Nat) : ∀ (l : List (String × Nat)) (d : Inputs),
    (∀ p ∈ l, sizeOr1 d p = p.2 ∨ sizeOr1 d p = 1) →
    canExpand (l.map (sizeOr1 d) ++ out) (l.map (·.2) ++ out) = true
  | [], d, _ => by
      induction out with
      | nil => rfl
      | cons a as ih => simp [canExpand]; exact ih
  | p :: l, d, h => by
      have ih := canExpand_of out l d (fun q hq => h q (by simp [hq]))
      simp only [List.map_cons, List.cons_append, canExpand, Bool.and_eq_true, Bool.or_eq_true,
        beq_iff_eq]
      exact ⟨h p (by simp), ih⟩

theorem clip_alignAxes (x : Tensor α) (env : String → Nat) (out ev : List Nat)
    (hev : inb out ev = true) : ∀ (l : Inputs),
    (∀ p ∈ l, env p.1 < p.2) →
    (∀ p ∈ l, p.1 ∈ x.keys → sizeOr1 x.inputs p = p.2) →
    (∀ p ∈ l, p.1 ∉ x.keys → sizeOr1 x.inputs p = 1) →
    clip (l.map (sizeOr1 x.inputs) ++ out) (l.map (fun p => env p.1) ++ ev)
      = axAllIdx (alignAxes x l env) ++ ev
  | [], _, _, _ => by simpa [alignAxes, axAllIdx] using clip_inb out ev hev
  | p :: l, hb, h1, h2 => by
      have ih := clip_alignAxes x env out ev hev l (fun q hq => hb q (by simp [hq]))
        (fun q hq => h1 q (by simp [hq])) (fun q hq => h2 q (by simp [hq]))
      simp only [alignAxes, axAllIdx, List.map_cons, List.cons_append, clip, List.map_map,
        Function.comp_def] at ih ⊢
      rw [ih]
      congr 1
      by_cases hk : p.1 ∈ x.keys
      · have hs := h1 p (by simp) hk
        have hlt := hb p (by simp)
        simp only [hk, decide_true, if_true]
        by_cases h1' : sizeOr1 x.inputs p = 1
        · simp only [h1', if_true]; omega
        · simp only [h1', if_false]
      · simp [hk, h2 p (by simp) hk]


/-- **alignTensor_sem.**  For a well-formed tensor whose inputs (with their sizes) all occur in the
    target `new_inputs` (distinct names), `align_tensor(new_inputs, x, expand)` succeeds; its shape
    is the target sizes (size 1 for inputs `x` lacks, unless `expand`) followed by the event shape;
    and reading it at any named point of the target (at 0 along un-expanded missing axes) gives
    the value of `x` at that named point. -/
theorem alignTensor_sem (x : Tensor α) (newInputs : Inputs) (expand : Bool)
    (hwf : x.WF) (hK : x.keys.Nodup) (hN : (newInputs.map (·.1)).Nodup)
    (hsub : ∀ p ∈ x.inputs, p ∈ newInputs) :
    ∃ r, alignTensor newInputs x expand = .ok r ∧
      r.shape = (if expand then newInputs.map (·.2) else newInputs.map (sizeOr1 x.inputs))
        ++ x.outShape ∧
      ∀ env ev, (∀ p ∈ newInputs, env p.1 < p.2) → inb x.outShape ev = true →
        r.get (newInputs.map (fun p => if expand || decide (p.1 ∈ x.keys) then env p.1 else 0) ++ ev)
          = x.atEnv env ev := by
  -- sizes of the target axes
  have hsz1 : ∀ p ∈ newInputs, p.1 ∈ x.keys → sizeOr1 x.inputs p = p.2 := by
    intro p hp hk
    simp only [Tensor.keys, List.mem_map] at hk
    obtain ⟨q, hq, hqk⟩ := hk
    have h1 := lookup_of_mem_nodup newInputs q.1 q.2 hN (hsub q hq)
    have h2 := lookup_of_mem_nodup newInputs p.1 p.2 hN hp
    rw [hqk, h2] at h1
    have h3 := lookup_of_mem_nodup x.inputs q.1 q.2 hK hq
    simp only [sizeOr1, ← hqk, h3]
    exact (Option.some.inj h1).symm
  have hsz0 : ∀ p ∈ newInputs, p.1 ∉ x.keys → sizeOr1 x.inputs p = 1 := by
    intro p _ hk
    simp only [sizeOr1, lookup_none_of_not_mem p.1 x.inputs hk]
  by_cases hearly : x.inputs = newInputs
  · -- early return
    refine ⟨x.data, by simp [alignTensor, hearly], ?_, ?_⟩
    · have hall : newInputs.map (sizeOr1 x.inputs) = newInputs.map (·.2) := by
        apply List.map_congr_left
        intro p hp
        exact hsz1 p hp (by rw [Tensor.keys, hearly]; exact List.mem_map_of_mem hp)
      rw [hall, hwf, Tensor.sizes, hearly]; simp
    · intro env ev _ _
      simp only [Tensor.atEnv, Tensor.keys, ← hearly, List.map_map, Function.comp_def]
      congr 2
      apply List.map_congr_left
      intro p hp
      have : p.1 ∈ x.inputs.map (·.1) := List.mem_map_of_mem hp
      simp [Tensor.keys, this]
  · -- permute, un-squeeze, (expand)
    let K' := (newInputs.filter fun p => decide (p.1 ∈ x.keys)).map (·.1)
    have hK'n : K'.Nodup :=
      hN.sublist (List.Sublist.map _ List.filter_sublist)
    have hiff : ∀ a, a ∈ K' ↔ a ∈ x.keys := by
      intro a
      simp only [K', List.mem_map, List.mem_filter, decide_eq_true_eq]
      constructor
      · rintro ⟨p, ⟨_, hp⟩, rfl⟩; exact hp
      · intro ha
        have ha' := ha
        simp only [Tensor.keys, List.mem_map] at ha'
        obtain ⟨q, hq, rfl⟩ := ha'
        exact ⟨q, ⟨hsub q hq, ha⟩, rfl⟩
    have hlen : K'.length = x.keys.length :=
      ((List.perm_ext_iff_of_nodup hK'n hK).mpr hiff).length_eq
    have hklen : x.keys.length = x.inputs.length := by simp [Tensor.keys]
    have hshape : x.data.shape = x.keys.map (sizeOf x.inputs) ++ x.outShape := by
      rw [hwf, Tensor.sizes, sizes_eq_map_sizeOf x.inputs hK x.inputs (fun _ h => h)]; rfl
    have hrank : x.data.shape.length - x.inputs.length = x.outShape.length := by
      rw [hshape]; simp [Tensor.keys]
    have hperm : (newInputs.filter fun p => decide (p.1 ∈ x.keys)).map (fun p => pos p.1 x.keys)
        ++ List.range' x.inputs.length (x.data.shape.length - x.inputs.length)
        = axesPerm x.keys K' x.outShape.length := by
      simp only [axesPerm, K', List.map_map, Function.comp_def, hrank]
      rw [← hklen, ← hlen]
    have hisperm : isPerm (axesPerm x.keys K' x.outShape.length) x.data.shape.length = true := by
      have := axesPerm_isPerm x.keys K' x.outShape.length hK hK'n hiff hlen
      rw [hshape]; simpa using this
    have hshape1 : gather x.data.shape (axesPerm x.keys K' x.outShape.length)
        = K'.map (sizeOf x.inputs) ++ x.outShape := by
      rw [hshape, gather_axesPerm x.keys K' (sizeOf x.inputs) x.outShape
        (fun a ha => (hiff a).mp ha) hlen]
    -- the un-squeezed view, for an arbitrary env
    have hkeepS : ∀ env, axKeepSizes (alignAxes x newInputs env) = K'.map (sizeOf x.inputs) := by
      intro env
      simp only [axKeepSizes, alignAxes, K', List.filter_map, List.map_map, Function.comp_def]
      apply List.map_congr_left
      intro p hp
      simp only [List.mem_filter, decide_eq_true_eq] at hp
      obtain ⟨v, hv⟩ := lookup_of_mem_keys p.1 x.inputs hp.2
      simp [sizeOr1, sizeOf, hv]
    have hkeepI : ∀ env, axKeepIdx (alignAxes x newInputs env) = K'.map env := by
      intro env
      simp only [axKeepIdx, alignAxes, K', List.filter_map, List.map_map, Function.comp_def]
    have hallS : ∀ env, axAllSizes (alignAxes x newInputs env) = newInputs.map (sizeOr1 x.inputs) := by
      intro env
      simp only [axAllSizes, alignAxes, List.map_map, Function.comp_def]
    have hdrop : ∀ env, ∀ q ∈ alignAxes x newInputs env, q.1 = false → q.2.1 = 1 := by
      intro env q hq hf
      simp only [alignAxes, List.mem_map] at hq
      obtain ⟨p, hp, rfl⟩ := hq
      simp only [decide_eq_false_iff_not] at hf
      exact hsz0 p hp hf
    have hprod : prod (newInputs.map (sizeOr1 x.inputs) ++ x.outShape)
        = prod (K'.map (sizeOf x.inputs) ++ x.outShape) := by
      have := prod_unsqueeze x.outShape (alignAxes x newInputs (fun _ => 0)) (hdrop _)
      rwa [hallS, hkeepS] at this
    -- value of the reshaped array at the un-squeezed index
    have hval : ∀ env ev, (∀ p ∈ newInputs, env p.1 < p.2) → inb x.outShape ev = true →
        x.data.get (gather (unravel (K'.map (sizeOf x.inputs) ++ x.outShape)
          (ravel (newInputs.map (sizeOr1 x.inputs) ++ x.outShape)
            (axAllIdx (alignAxes x newInputs env) ++ ev)))
          (invPerm (axesPerm x.keys K' x.outShape.length))) = x.atEnv env ev := by
      intro env ev henv hev
      have hr := ravel_unsqueeze x.outShape ev (alignAxes x newInputs env) (hdrop env)
      rw [hallS, hkeepS, hkeepI] at hr
      have hin : inb (K'.map (sizeOf x.inputs) ++ x.outShape) (K'.map env ++ ev) = true := by
        have := inb_axKeep (alignAxes x newInputs env) (by
          intro q hq hk
          simp only [alignAxes, List.mem_map] at hq
          obtain ⟨p, hp, rfl⟩ := hq
          simp only [decide_eq_true_eq] at hk
          simp only [hsz1 p hp hk]
          exact henv p hp)
        rw [hkeepS, hkeepI] at this
        exact inb_append _ _ _ _ this hev
      rw [hr, unravel_ravel _ _ hin]
      have hevl : ev.length = x.outShape.length := inb_length _ _ hev
      rw [← hevl, gather_invPerm_axesPerm x.keys K' env ev hK hK'n hiff hlen]
      rfl
    unfold alignTensor
    simp only [hearly, if_false, hperm, permute, hisperm, if_true, reshape, hshape1, hprod]
    cases expand with
    | false =>
      simp only [Bool.false_eq_true, if_false, Bool.false_or]
      refine ⟨_, rfl, rfl, ?_⟩
      intro env ev henv hev
      have : newInputs.map (fun p => if decide (p.1 ∈ x.keys) = true then env p.1 else 0)
          = axAllIdx (alignAxes x newInputs env) := by
        simp only [axAllIdx, alignAxes, List.map_map, Function.comp_def]
      rw [this]
      exact hval env ev henv hev
    | true =>
      have hce : canExpand (newInputs.map (sizeOr1 x.inputs) ++ x.outShape)
          (newInputs.map (·.2) ++ x.outShape) = true :=
        canExpand_of x.outShape newInputs x.inputs (by
          intro p hp
          by_cases hk : p.1 ∈ x.keys
          · exact Or.inl (hsz1 p hp hk)
          · exact Or.inr (hsz0 p hp hk))
      simp only [if_true, expandTo, hce, Bool.true_or]
      refine ⟨_, rfl, rfl, ?_⟩
      intro env ev henv hev
      show x.data.get _ = _
      rw [clip_alignAxes x env x.outShape ev hev newInputs henv hsz1 hsz0]
      exact hval env ev henv hev


/-! ### tensor_to_data for an arbitrary injective name_to_dim -/

theorem mem_insertSorted (a x : Int) : ∀ (l : List Int), x ∈ insertSorted a l ↔ x = a ∨ x ∈ l
  | [] => by simp [insertSorted]
  | b :: l => by
      simp only [insertSorted]
      by_cases h : a ≤ b
      · simp [h]
      · simp only [h, if_false, List.mem_cons, mem_insertSorted a x l]
        constructor
        · rintro (h | h | h)
          · exact Or.inr (Or.inl h)
          · exact Or.inl h
          · exact Or.inr (Or.inr h)
        · rintro (h | h | h)
          · exact Or.inr (Or.inl h)
          · exact Or.inl h
          · exact Or.inr (Or.inr h)

theorem mem_sortInts (x : Int) : ∀ (l : List Int), x ∈ sortInts l ↔ x ∈ l
  | [] => by simp [sortInts]
  | a :: l => by simp [sortInts, mem_insertSorted, mem_sortInts x l]

theorem insertSorted_sorted (a : Int) : ∀ (l : List Int), l.Pairwise (· < ·) → a ∉ l →
    (insertSorted a l).Pairwise (· < ·)
  | [], _, _ => by simp [insertSorted]
  | b :: l, h, ha => by
      simp only [List.pairwise_cons] at h
      simp only [List.mem_cons, not_or] at ha
      simp only [insertSorted]
      by_cases hab : a ≤ b
      · simp only [hab, if_true, List.pairwise_cons, List.mem_cons]
        refine ⟨?_, h.1, h.2⟩
        rintro x (rfl | hx)
        · omega
        · have := h.1 x hx; omega
      · simp only [hab, if_false, List.pairwise_cons]
        refine ⟨?_, insertSorted_sorted a l h.2 ha.2⟩
        intro x hx
        rcases (mem_insertSorted a x l).mp hx with rfl | hx
        · omega
        · exact h.1 x hx

theorem sortInts_sorted : ∀ (l : List Int), l.Nodup → (sortInts l).Pairwise (· < ·)
  | [], _ => by simp [sortInts]
  | a :: l, h => by
      simp only [List.nodup_cons] at h
      exact insertSorted_sorted a _ (sortInts_sorted l h.2) (fun hm => h.1 ((mem_sortInts a l).mp hm))

theorem sortInts_nodup (l : List Int) (h : l.Nodup) : (sortInts l).Nodup :=
  (sortInts_sorted l h).imp (fun h => Int.ne_of_lt h)

/-- Size of the input sitting on dim `d` (1 for dims no input maps to). -/
def sizeAt (U : List Int) (V : List Nat) (d : Int) : Nat :=
  match lookup d (U.zip V) with | some s => s | none => 1

theorem map_sizeAt : ∀ (U : List Int) (V : List Nat), U.Nodup → U.length = V.length →
    U.map (sizeAt U V) = V
  | [], [], _, _ => rfl
  | [], _ :: _, _, h => by simp at h
  | _ :: _, [], _, h => by simp at h
  | u :: U, v :: V, hn, hl => by
      simp only [List.nodup_cons] at hn
      have ih := map_sizeAt U V hn.2 (by simpa using hl)
      simp only [List.map_cons, List.cons.injEq]
      refine ⟨by simp [sizeAt, lookup], ?_⟩
      rw [← ih]
      apply List.map_congr_left
      intro d hd
      have hne : ¬ u = d := fun e => hn.1 (e ▸ hd)
      simp only [sizeAt, List.zip_cons_cons, lookup, hne, if_false, ih]

theorem mapM_some_length {β γ : Type} (f : β → Option γ) : ∀ (l : List β) (r : List γ),
    l.mapM f = some r → r.length = l.length
  | [], r, h => by simp at h; simp [← h]
  | a :: l, r, h => by
      rw [List.mapM_cons] at h
      cases hf : f a with
      | none => simp [hf] at h
      | some b =>
        cases hm : l.mapM f with
        | none => simp [hf, hm] at h
        | some r' =>
          simp only [hf, hm] at h
          have : r = b :: r' := by cases h; rfl
          rw [this]; simp [mapM_some_length f l r' hm]

theorem mapM_some_mem {β γ : Type} (f : β → Option γ) : ∀ (l : List β) (r : List γ),
    l.mapM f = some r → ∀ y ∈ r, ∃ x ∈ l, f x = some y
  | [], r, h => by simp at h; simp [h]
  | a :: l, r, h => by
      rw [List.mapM_cons] at h
      cases hf : f a with
      | none => simp [hf] at h
      | some b =>
        cases hm : l.mapM f with
        | none => simp [hf, hm] at h
        | some r' =>
          simp only [hf, hm] at h
          have : r = b :: r' := by cases h; rfl
          rw [this]
          intro y hy
          simp only [List.mem_cons] at hy
          rcases hy with rfl | hy
          · exact ⟨a, by simp, hf⟩
          · obtain ⟨x, hx, hfx⟩ := mapM_some_mem f l r' hm y hy
            exact ⟨x, by simp [hx], hfx⟩

/-- Dims of the kept axes of an axis list whose first axis sits on dim `off`. -/
def maskDims : Int → List Ax → List Int
  | _, [] => []
  | off, (true, _, _) :: l => off :: maskDims (off + 1) l
  | off, (false, _, _) :: l => maskDims (off + 1) l

/-- The `n` batch axes of the result starting at dim `off`: axis `d` is kept (size `h d`, index
    `g d`) iff `d` is in the strictly increasing list `S`; the others are size-1 fillers. -/
def buildAx (h g : Int → Nat) : Int → Nat → List Int → List Ax
  | _, 0, _ => []
  | off, n + 1, [] => (false, 1, 0) :: buildAx h g (off + 1) n []
  | off, n + 1, d :: S =>
    if d = off then (true, h d, g d) :: buildAx h g (off + 1) n S
    else (false, 1, 0) :: buildAx h g (off + 1) n (d :: S)

theorem buildAx_spec (h g : Int → Nat) : ∀ (n : Nat) (off : Int) (S : List Int),
    S.Pairwise (· < ·) → (∀ d ∈ S, off ≤ d ∧ d < off + n) →
    (buildAx h g off n S).length = n ∧ maskDims off (buildAx h g off n S) = S ∧
    axKeepSizes (buildAx h g off n S) = S.map h ∧ axKeepIdx (buildAx h g off n S) = S.map g ∧
    (∀ q ∈ buildAx h g off n S, q.1 = false → q.2.1 = 1)
  | 0, off, S, _, hb => by
      have : S = [] := by
        cases S with
        | nil => rfl
        | cons d S => have := hb d (by simp); omega
      simp [this, buildAx, maskDims, axKeepSizes, axKeepIdx]
  | n + 1, off, [], _, _ => by
      have ih := buildAx_spec h g n (off + 1) [] (by simp) (by simp)
      simp only [buildAx, List.length_cons, ih.1, maskDims, ih.2.1, true_and]
      refine ⟨?_, ?_, ?_⟩
      · simpa [axKeepSizes] using ih.2.2.1
      · simpa [axKeepIdx] using ih.2.2.2.1
      · intro q hq
        simp only [List.mem_cons] at hq
        rcases hq with rfl | hq
        · intro _; rfl
        · exact ih.2.2.2.2 q hq
  | n + 1, off, d :: S, hs, hb => by
      simp only [List.pairwise_cons] at hs
      by_cases hd : d = off
      · have ih := buildAx_spec h g n (off + 1) S hs.2 (by
          intro x hx
          have h1 := hs.1 x hx
          have h2 := hb x (by simp [hx])
          push_cast at h2; omega)
        simp only [buildAx, hd, if_true, List.length_cons, ih.1, maskDims, ih.2.1, true_and]
        refine ⟨?_, ?_, ?_⟩
        · simp only [axKeepSizes, List.filter_cons, if_true, List.map_cons]
          have := ih.2.2.1; simp only [axKeepSizes] at this; rw [this]
        · simp only [axKeepIdx, List.filter_cons, if_true, List.map_cons]
          have := ih.2.2.2.1; simp only [axKeepIdx] at this; rw [this]
        · intro q hq
          simp only [List.mem_cons] at hq
          rcases hq with rfl | hq
          · intro hf; simp at hf
          · exact ih.2.2.2.2 q hq
      · have ih := buildAx_spec h g n (off + 1) (d :: S) (by simp only [List.pairwise_cons]; exact hs) (by
          intro x hx
          simp only [List.mem_cons] at hx
          have h0 := hb d (by simp)
          rcases hx with rfl | hx
          · push_cast at h0; omega
          · have h1 := hs.1 x hx
            have h2 := hb x (by simp [hx])
            push_cast at h2; omega)
        simp only [buildAx, hd, if_false, List.length_cons, ih.1, maskDims, ih.2.1, true_and]
        refine ⟨?_, ?_, ?_⟩
        · simpa [axKeepSizes] using ih.2.2.1
        · simpa [axKeepIdx] using ih.2.2.2.1
        · intro q hq
          simp only [List.mem_cons] at hq
          rcases hq with rfl | hq
          · intro _; rfl
          · exact ih.2.2.2.2 q hq

theorem scatter_ax : ∀ (l : List Ax) (pre : List Nat), (∀ q ∈ l, q.1 = false → q.2.1 = 1) →
    scatterDims ((maskDims (-(l.length : Int)) l).zip (axKeepSizes l))
      (pre ++ List.replicate l.length 1) = .ok (pre ++ axAllSizes l)
  | [], pre, _ => by simp [maskDims, axKeepSizes, axAllSizes, scatterDims]
  | (false, s, i) :: l, pre, h => by
      have hs : s = 1 := h (false, s, i) (by simp) rfl
      have ih := scatter_ax l (pre ++ [1]) (fun q hq => h q (by simp [hq]))
      have e : (-((l.length + 1 : Nat) : Int)) + 1 = -(l.length : Int) := by push_cast; omega
      simp only [maskDims, axKeepSizes, axAllSizes, List.length_cons, e, List.replicate_succ,
        List.map_cons, hs, List.filter_cons, Bool.false_eq_true, if_false] at ih ⊢
      simpa using ih
  | (true, s, i) :: l, pre, h => by
      have ih := scatter_ax l (pre ++ [s]) (fun q hq => h q (by simp [hq]))
      have e : (-((l.length + 1 : Nat) : Int)) + 1 = -(l.length : Int) := by push_cast; omega
      simp only [maskDims, axKeepSizes, axAllSizes, List.length_cons, e, List.filter_cons, if_true,
        List.map_cons, List.zip_cons_cons, scatterDims, setNeg] at ih ⊢
      have c : (-((l.length + 1 : Nat) : Int)) < 0 ∧
          -(-((l.length + 1 : Nat) : Int)) ≤ ((pre ++ List.replicate (l.length + 1) 1).length : Int) := by
        simp only [List.length_append, List.length_replicate]; push_cast; omega
      rw [if_pos c]
      have hpos : (pre ++ List.replicate (l.length + 1) 1).length
          - (-(-((l.length + 1 : Nat) : Int))).toNat = pre.length := by
        simp only [List.length_append, List.length_replicate, Int.neg_neg, Int.toNat_natCast]; omega
      rw [hpos]
      have hset : (pre ++ List.replicate (l.length + 1) 1).set pre.length s
          = (pre ++ [s]) ++ List.replicate l.length 1 := by
        simp [List.replicate_succ]
      simp only [hset]
      simpa using ih


theorem axAllSizes_buildAx_indep (h g g' : Int → Nat) : ∀ (n : Nat) (off : Int) (S : List Int),
    axAllSizes (buildAx h g off n S) = axAllSizes (buildAx h g' off n S)
  | 0, _, _ => rfl
  | n + 1, off, [] => by
      have ih := axAllSizes_buildAx_indep h g g' n (off + 1) []
      simp only [axAllSizes, buildAx, List.map_cons] at ih ⊢; rw [ih]
  | n + 1, off, d :: S => by
      by_cases hd : d = off
      · have ih := axAllSizes_buildAx_indep h g g' n (off + 1) S
        simp only [axAllSizes, buildAx, hd, if_true, List.map_cons] at ih ⊢; rw [ih]
      · have ih := axAllSizes_buildAx_indep h g g' n (off + 1) (d :: S)
        simp only [axAllSizes, buildAx, hd, if_false, List.map_cons] at ih ⊢; rw [ih]

theorem inb_map {β : Type} (h g : β → Nat) : ∀ (U : List β), (∀ d ∈ U, g d < h d) →
    inb (U.map h) (U.map g) = true
  | [], _ => rfl
  | d :: U, hb => by
      simp only [List.map_cons, inb, Bool.and_eq_true, decide_eq_true_eq]
      exact ⟨hb d (by simp), inb_map h g U (fun x hx => hb x (by simp [hx]))⟩

theorem reshape_get (a r : Arr α) (s : List Nat) (h : reshape a s = .ok r) :
    ∀ idx, r.get idx = a.get (unravel a.shape (ravel s idx)) := by
  unfold reshape at h
  split at h
  · cases h; intro idx; rfl
  · cases h

/-- **toData_sem.**  `to_data(f, name_to_dim)` for ANY `name_to_dim` that is injective on the
    inputs of `f` (`U` = the requested dims, in input order, pairwise distinct, all negative):
    it succeeds; with `d0` the smallest requested dim, the batch shape has `-d0` axes, the input
    mapped to dim `d` sits on axis `d` with its size and every other axis has size 1; and the
    entry at the index carrying `g d` on each requested axis `d` (0 elsewhere) is the value of
    `f` at the named point where the input mapped to `d` equals `g d`
    (`U.map g = f.keys.map env` for `env k = g (name_to_dim k)`). -/
theorem toData_sem (f : Tensor α) (n2d : List (String × Int)) (hwf : f.WF)
    (hin : f.inputs ≠ []) (hneg : ∀ p ∈ n2d, p.2 < 0)
    (U : List Int) (hU : f.keys.mapM (fun k => lookup k n2d) = some U) (hinj : U.Nodup) :
    ∃ r d0 rest, sortInts U = d0 :: rest ∧ toData f (some n2d) = .ok r ∧
      (∀ g : Int → Nat, r.shape =
        axAllSizes (buildAx (sizeAt U f.sizes) g d0 (-d0).toNat (sortInts U)) ++ f.outShape) ∧
      ∀ (g : Int → Nat) (ev : List Nat), (∀ d ∈ U, g d < sizeAt U f.sizes d) →
        inb f.outShape ev = true →
        r.get (axAllIdx (buildAx (sizeAt U f.sizes) g d0 (-d0).toNat (sortInts U)) ++ ev)
          = f.data.get (U.map g ++ ev) := by
  have hUlen : U.length = f.inputs.length := by
    have := mapM_some_length _ _ _ hU; simpa [Tensor.keys] using this
  have hslen : f.sizes.length = f.inputs.length := by simp [Tensor.sizes]
  have hne : n2d ≠ [] := by
    rintro rfl
    cases hk : f.inputs with
    | nil => exact hin hk
    | cons p ps => simp [Tensor.keys, hk, List.mapM_cons, lookup] at hU
  have hUneg : ∀ d ∈ U, d < 0 := by
    intro d hd
    obtain ⟨k, _, hk⟩ := mapM_some_mem _ _ _ hU d hd
    exact hneg (k, d) (lookup_mem k d n2d hk)
  generalize hh : sizeAt U f.sizes = h
  have hsz : U.map h = f.sizes := by rw [← hh]; exact map_sizeAt U f.sizes hinj (by omega)
  have hS := sortInts_sorted U hinj
  have hSn := sortInts_nodup U hinj
  have hiff : ∀ a, a ∈ sortInts U ↔ a ∈ U := fun a => mem_sortInts a U
  have hlen : (sortInts U).length = U.length :=
    ((List.perm_ext_iff_of_nodup hSn hinj).mpr hiff).length_eq
  generalize hSd : sortInts U = S at *
  cases S with
  | nil =>
    exfalso
    have : f.inputs.length = 0 := by rw [← hUlen, ← hlen]; rfl
    exact hin (List.eq_nil_of_length_eq_zero this)
  | cons d0 rest =>
  have hd0neg : d0 < 0 := hUneg d0 ((hiff d0).mp (by simp))
  have hD : ((-d0).toNat : Int) = -d0 := by omega
  have hbounds : ∀ d ∈ d0 :: rest, d0 ≤ d ∧ d < d0 + ((-d0).toNat : Nat) := by
    intro d hd
    have hdn := hUneg d ((hiff d).mp hd)
    simp only [List.pairwise_cons] at hS
    simp only [List.mem_cons] at hd
    rcases hd with rfl | hd
    · omega
    · have := hS.1 d hd; omega
  -- step 1: the no-op reshape
  have hout : f.data.shape = f.sizes ++ f.outShape := hwf
  have h1 : ∃ data1, reshape f.data (f.sizes ++ f.outShape) = .ok data1 := by
    simp only [reshape, ← hout, if_true]; exact ⟨_, rfl⟩
  obtain ⟨data1, h1⟩ := h1
  obtain ⟨h1s, h1r⟩ := reshape_isReshape _ _ _ h1
  -- step 3: the permutation
  have hisperm : isPerm (axesPerm U (d0 :: rest) f.outShape.length) data1.shape.length = true := by
    have := axesPerm_isPerm U (d0 :: rest) f.outShape.length hinj hSn hiff hlen
    rw [h1s, List.length_append, hslen, ← hUlen]; exact this
  have h3 : ∃ data2, permute data1 (axesPerm U (d0 :: rest) f.outShape.length) = .ok data2 ∧
      data2.shape = (d0 :: rest).map h ++ f.outShape ∧
      ∀ idx, data2.get idx = data1.get (gather idx (invPerm (axesPerm U (d0 :: rest) f.outShape.length))) := by
    simp only [permute, hisperm, if_true]
    refine ⟨_, rfl, ?_, fun _ => rfl⟩
    show gather data1.shape _ = _
    rw [h1s, ← hsz, gather_axesPerm U (d0 :: rest) h f.outShape (fun a ha => (hiff a).mp ha) hlen]
  obtain ⟨data2, h3, h3s, h3g⟩ := h3
  -- step 4: the batch shape
  have hspec := fun g => buildAx_spec h g (-d0).toNat d0 (d0 :: rest) hS hbounds
  have h5 : scatterDims ((d0 :: rest).zip data2.shape) (List.replicate (-d0).toNat 1)
      = .ok (axAllSizes (buildAx h (fun _ => 0) d0 (-d0).toNat (d0 :: rest))) := by
    obtain ⟨hl, hm, hks, _, hdrop⟩ := hspec (fun _ => 0)
    have := scatter_ax (buildAx h (fun _ => 0) d0 (-d0).toNat (d0 :: rest)) [] hdrop
    rw [hl, hD, Int.neg_neg, hm, hks] at this
    rw [h3s, zip_append_right _ _ _ (by simp)]
    simpa using this
  -- step 5: the final reshape
  have hprodeq : prod (axAllSizes (buildAx h (fun _ => 0) d0 (-d0).toNat (d0 :: rest)) ++ f.outShape)
      = prod data2.shape := by
    obtain ⟨_, _, hks, _, hdrop⟩ := hspec (fun _ => 0)
    rw [prod_unsqueeze f.outShape _ hdrop, hks, h3s]
  have h6 : ∃ r, reshape data2 (axAllSizes (buildAx h (fun _ => 0) d0 (-d0).toNat (d0 :: rest))
      ++ f.outShape) = .ok r := by
    simp only [reshape, hprodeq, if_true]; exact ⟨_, rfl⟩
  obtain ⟨r, h6⟩ := h6
  obtain ⟨h6s, h6r⟩ := reshape_isReshape _ _ _ h6
  refine ⟨r, d0, rest, rfl, ?_, ?_, ?_⟩
  · rw [toData_steps f n2d hne hin hneg data1 h1 U hU data2 (by rw [hSd]; exact h3) d0 rest hSd _
      (by rw [hSd]; exact h5)]
    exact h6
  · intro g
    rw [h6s, axAllSizes_buildAx_indep h g (fun _ => 0)]
  · intro g ev hg hev
    obtain ⟨_, _, hks, hki, hdrop⟩ := hspec g
    have hinS : inb ((d0 :: rest).map h) ((d0 :: rest).map g) = true :=
      inb_map h g _ (fun d hd => hg d ((hiff d).mp hd))
    have hin2 : inb ((d0 :: rest).map h ++ f.outShape) ((d0 :: rest).map g ++ ev) = true :=
      inb_append _ _ _ _ hinS hev
    have hinU : inb (f.sizes ++ f.outShape) (U.map g ++ ev) = true := by
      rw [← hsz]; exact inb_append _ _ _ _ (inb_map h g U hg) hev
    have hevl : ev.length = f.outShape.length := inb_length _ _ hev
    rw [reshape_get _ _ _ h6, axAllSizes_buildAx_indep h (fun _ => 0) g,
      ravel_unsqueeze f.outShape ev _ hdrop, hks, hki, h3s, unravel_ravel _ _ hin2, h3g,
      ← hevl, gather_invPerm_axesPerm U (d0 :: rest) g ev hinj hSn hiff hlen,
      h1r.2 _ (by rw [h1s]; exact hinU), h1s, hout, unravel_ravel _ _ hinU]


theorem buildAx_congr (h g g' : Int → Nat) : ∀ (n : Nat) (off : Int) (S : List Int),
    (∀ d ∈ S, g d = g' d) → buildAx h g off n S = buildAx h g' off n S
  | 0, _, _, _ => rfl
  | n + 1, off, [], _ => by
      simp only [buildAx]; rw [buildAx_congr h g g' n (off + 1) [] (by simp)]
  | n + 1, off, d :: S, hg => by
      by_cases hd : d = off
      · simp only [buildAx, hd, if_true]
        rw [buildAx_congr h g g' n (off + 1) S (fun x hx => hg x (by simp [hx])),
          ← hd, hg d (by simp)]
      · simp only [buildAx, hd, if_false]
        rw [buildAx_congr h g g' n (off + 1) (d :: S) hg]

/-- Every in-bounds batch index of the result is the index built from some `g`: filler axes have
    size 1, so the index is 0 there. -/
theorem axAllIdx_of_idx (h g0 : Int → Nat) : ∀ (n : Nat) (off : Int) (S : List Int) (bidx : List Nat),
    S.Pairwise (· < ·) → (∀ d ∈ S, off ≤ d ∧ d < off + n) →
    inb (axAllSizes (buildAx h g0 off n S)) bidx = true →
    axAllIdx (buildAx h (fun d => bidx.getD (d - off).toNat 0) off n S) = bidx ∧
    ∀ d ∈ S, bidx.getD (d - off).toNat 0 < h d
  | 0, off, S, bidx, _, hb, hin => by
      have hS : S = [] := by
        cases S with
        | nil => rfl
        | cons d S => have := hb d (by simp); omega
      subst hS
      cases bidx with
      | nil => simp [buildAx, axAllIdx]
      | cons i is => simp [buildAx, axAllSizes, inb] at hin
  | n + 1, off, [], bidx, _, _, hin => by
      cases bidx with
      | nil => simp [buildAx, axAllSizes, inb] at hin
      | cons i is =>
        simp only [buildAx, axAllSizes, List.map_cons, inb, Bool.and_eq_true,
          decide_eq_true_eq] at hin
        have ih := axAllIdx_of_idx h g0 n (off + 1) [] is (by simp) (by simp) hin.2
        refine ⟨?_, by simp⟩
        simp only [buildAx, axAllIdx, List.map_cons, Bool.false_eq_true, if_false]
        rw [buildAx_congr h _ (fun d => is.getD (d - (off + 1)).toNat 0) n (off + 1) [] (by simp)]
        have := ih.1; simp only [axAllIdx] at this
        rw [this]; congr 1; omega
  | n + 1, off, d :: S, bidx, hs, hb, hin => by
      simp only [List.pairwise_cons] at hs
      have hd0 := hb d (by simp)
      cases bidx with
      | nil =>
        by_cases hd : d = off <;> simp [buildAx, hd, axAllSizes, inb] at hin
      | cons i is =>
        have hshift : ∀ x : Int, off < x →
            (i :: is).getD (x - off).toNat 0 = is.getD (x - (off + 1)).toNat 0 := by
          intro x hx
          have : (x - off).toNat = (x - (off + 1)).toNat + 1 := by omega
          rw [this]; simp
        by_cases hd : d = off
        · simp only [buildAx, hd, if_true, axAllSizes, List.map_cons, inb, Bool.and_eq_true,
            decide_eq_true_eq] at hin
          have hb' : ∀ x ∈ S, off + 1 ≤ x ∧ x < off + 1 + n := by
            intro x hx
            have h1 := hs.1 x hx
            have h2 := hb x (by simp [hx])
            push_cast at h2; omega
          have ih := axAllIdx_of_idx h g0 n (off + 1) S is hs.2 hb' hin.2
          constructor
          · simp only [buildAx, hd, if_true, axAllIdx, List.map_cons]
            rw [buildAx_congr h _ (fun x => is.getD (x - (off + 1)).toNat 0) n (off + 1) S
              (fun x hx => hshift x (by have := hb' x hx; omega))]
            have := ih.1; simp only [axAllIdx] at this
            rw [this]; simp
          · intro x hx
            simp only [List.mem_cons] at hx
            rcases hx with rfl | hx
            · rw [hd]; simpa using hin.1
            · rw [hshift x (by have := hb' x hx; omega)]; exact ih.2 x hx
        · simp only [buildAx, hd, if_false, axAllSizes, List.map_cons, inb, Bool.and_eq_true,
            decide_eq_true_eq] at hin
          have hb' : ∀ x ∈ d :: S, off + 1 ≤ x ∧ x < off + 1 + n := by
            intro x hx
            simp only [List.mem_cons] at hx
            rcases hx with rfl | hx
            · push_cast at hd0; omega
            · have h1 := hs.1 x hx
              have h2 := hb x (by simp [hx])
              push_cast at h2; omega
          have ih := axAllIdx_of_idx h g0 n (off + 1) (d :: S) is
            (by simp only [List.pairwise_cons]; exact hs) hb' hin.2
          constructor
          · simp only [buildAx, hd, if_false, axAllIdx, List.map_cons, Bool.false_eq_true]
            rw [buildAx_congr h _ (fun x => is.getD (x - (off + 1)).toNat 0) n (off + 1) (d :: S)
              (fun x hx => hshift x (by have := hb' x hx; omega))]
            have := ih.1; simp only [axAllIdx] at this
            rw [this]; congr 1; omega
          · intro x hx
            rw [hshift x (by have := hb' x hx; omega)]; exact ih.2 x hx


/-- **toData_sem_idx.**  The same statement read from the result's side: at EVERY in-bounds index
    `bidx ++ ev` of the result, the entry is the value of `f` at the named point where the input
    requested on dim `d` takes the value found on axis `d` of `bidx` (axis `d` is position
    `d - d0`, `d0` the smallest requested dim). -/
theorem toData_sem_idx (f : Tensor α) (n2d : List (String × Int)) (hwf : f.WF)
    (hin : f.inputs ≠ []) (hneg : ∀ p ∈ n2d, p.2 < 0)
    (U : List Int) (hU : f.keys.mapM (fun k => lookup k n2d) = some U) (hinj : U.Nodup) :
    ∃ r d0 rest bshape, sortInts U = d0 :: rest ∧ toData f (some n2d) = .ok r ∧
      r.shape = bshape ++ f.outShape ∧ bshape.length = (-d0).toNat ∧
      ∀ bidx ev, inb bshape bidx = true → inb f.outShape ev = true →
        r.get (bidx ++ ev) = f.data.get (U.map (fun d => bidx.getD (d - d0).toNat 0) ++ ev) := by
  obtain ⟨r, d0, rest, hSd, hr, hshape, hval⟩ := toData_sem f n2d hwf hin hneg U hU hinj
  have hUneg : ∀ d ∈ U, d < 0 := by
    intro d hd
    obtain ⟨k, _, hk⟩ := mapM_some_mem _ _ _ hU d hd
    exact hneg (k, d) (lookup_mem k d n2d hk)
  have hS := sortInts_sorted U hinj
  have hiff : ∀ a, a ∈ sortInts U ↔ a ∈ U := fun a => mem_sortInts a U
  rw [hSd] at hS hiff
  have hd0neg : d0 < 0 := hUneg d0 ((hiff d0).mp (by simp))
  have hbounds : ∀ d ∈ d0 :: rest, d0 ≤ d ∧ d < d0 + ((-d0).toNat : Nat) := by
    intro d hd
    have hdn := hUneg d ((hiff d).mp hd)
    simp only [List.pairwise_cons] at hS
    simp only [List.mem_cons] at hd
    rcases hd with rfl | hd
    · omega
    · have := hS.1 d hd; omega
  rw [hSd] at hshape hval
  refine ⟨r, d0, rest, _, hSd, hr, hshape (fun _ => 0), ?_, ?_⟩
  · simp only [axAllSizes, List.length_map]
    exact (buildAx_spec _ _ (-d0).toNat d0 (d0 :: rest) hS hbounds).1
  · intro bidx ev hb hev
    obtain ⟨hidx, hlt⟩ := axAllIdx_of_idx (sizeAt U f.sizes) (fun _ => 0) (-d0).toNat d0
      (d0 :: rest) bidx hS hbounds hb
    have := hval (fun d => bidx.getD (d - d0).toNat 0) ev
      (fun d hd => hlt d ((hiff d).mpr hd)) hev
    rw [hidx] at this
    exact this


/-! ### the round trip again: `hnodup` follows from injectivity; pointwise corollary -/

theorem packed_name_index : ∀ (l : List (Option String × Nat)) (n : String),
    n ∈ (packedSpec l).map (·.1) → ∃ j : Nat, (l[j]?).map (·.1) = some (some n)
  | [], n, h => by simp [packedSpec] at h
  | (none, s) :: l, n, h => by
      obtain ⟨j, hj⟩ := packed_name_index l n (by simpa [packedSpec] using h)
      exact ⟨j + 1, by simpa using hj⟩
  | (some m, s) :: l, n, h => by
      by_cases hs : s = 1
      · obtain ⟨j, hj⟩ := packed_name_index l n (by simpa [packedSpec, hs] using h)
        exact ⟨j + 1, by simpa using hj⟩
      · simp only [packedSpec, ne_eq, hs, not_false_eq_true, if_true, List.map_cons,
          List.mem_cons] at h
        rcases h with rfl | h
        · exact ⟨0, by simp⟩
        · obtain ⟨j, hj⟩ := packed_name_index l n h
          exact ⟨j + 1, by simpa using hj⟩

/-- Distinct axes carry distinct names as soon as `name_to_dim` inverts them. -/
theorem packed_nodup_of_consistent (n2d : List (String × Int)) : ∀ (off : Int)
    (l : List (Option String × Nat)), Consistent n2d off l → ((packedSpec l).map (·.1)).Nodup
  | _, [], _ => by simp [packedSpec]
  | off, (none, s) :: l, h => by
      simpa [packedSpec] using packed_nodup_of_consistent n2d (off + 1) l (consistent_tail _ _ _ _ h)
  | off, (some n, s) :: l, h => by
      have ih := packed_nodup_of_consistent n2d (off + 1) l (consistent_tail _ _ _ _ h)
      by_cases hs : s = 1
      · simpa [packedSpec, hs] using ih
      · simp only [packedSpec, ne_eq, hs, not_false_eq_true, if_true, List.map_cons,
          List.nodup_cons]
        refine ⟨?_, ih⟩
        intro hmem
        obtain ⟨j, hj⟩ := packed_name_index l n hmem
        have h0 := h 0 n (by simp)
        have h1 := h (j + 1) n (by simpa using hj)
        rw [h0] at h1
        have := Option.some.inj h1
        push_cast at this; omega

/-- **toData_toFunsor_roundtrip'** — the round trip with `hnodup` discharged from the
    injectivity of `dim_to_name`. -/
theorem toData_toFunsor_roundtrip' (x : Arr α) (bs es : List Nat) (dtype : Option Nat)
    (d2n : List (Int × String)) (hd : d2n ≠ []) (hneg : ∀ p ∈ d2n, p.1 < 0)
    (hinj : (d2n.map (·.2)).Nodup)
    (hshape : x.shape = bs ++ es)
    (hnamed : AllNamed ((axisNames d2n bs.length).zip bs)) :
    ∃ f r k, toFunsor x (some es) dtype (some d2n) = .ok f ∧
      toData f (some (swapPairs d2n)) = .ok r ∧
      k ≤ bs.length ∧ r.shape = (bs ++ es).drop k ∧ (∀ s ∈ bs.take k, s = 1) ∧
      IsReshapeOf r x ∧ r.toFlat = x.toFlat :=
  toData_toFunsor_roundtrip x bs es dtype d2n hd hneg hinj hshape hnamed
    (packed_nodup_of_consistent _ _ _ (consistent_axisNames d2n hinj bs))

/-- The name on dim `d` read at `env` (0 for dims without a name). -/
def dimVal (d2n : List (Int × String)) (env : String → Nat) (d : Int) : Nat :=
  match lookup d d2n with | some n => env n | none => 0

theorem keptDims_map_dimVal (d2n : List (Int × String)) (env : String → Nat) : ∀ (off : Int)
    (l : List (Option String × Nat)),
    (∀ (j : Nat) (n : String), (l[j]?).map (·.1) = some (some n) → lookup (off + j) d2n = some n) →
    (keptDims off l).map (dimVal d2n env) = (packedSpec l).map (fun p => env p.1)
  | _, [], _ => rfl
  | off, (none, s) :: l, h => by
      simp only [keptDims, packedSpec]
      exact keptDims_map_dimVal d2n env (off + 1) l (fun j n hj => by
        have := h (j + 1) n (by simpa using hj)
        rw [← this]; congr 1; push_cast; omega)
  | off, (some m, s) :: l, h => by
      have ih := keptDims_map_dimVal d2n env (off + 1) l (fun j n hj => by
        have := h (j + 1) n (by simpa using hj)
        rw [← this]; congr 1; push_cast; omega)
      by_cases hs : s = 1
      · simpa [keptDims, packedSpec, hs] using ih
      · have h0 : lookup off d2n = some m := by simpa using h 0 m (by simp)
        simp only [keptDims, packedSpec, ne_eq, hs, not_false_eq_true, if_true, List.map_cons, ih,
          dimVal, h0]

theorem axisNames_forward (d2n : List (Int × String)) (bs : List Nat) :
    ∀ (j : Nat) (n : String), (((axisNames d2n bs.length).zip bs)[j]?).map (·.1) = some (some n) →
      lookup (-(bs.length : Int) + j) d2n = some n := by
  intro j n hj
  cases hz : ((axisNames d2n bs.length).zip bs)[j]? with
  | none => simp [hz] at hj
  | some z =>
    rw [hz] at hj
    simp only [Option.map_some, Option.some.injEq] at hj
    have := (List.getElem?_zip_eq_some.mp hz).1
    rw [hj] at this
    simp only [axisNames, List.getElem?_map] at this
    cases hr : (List.range bs.length)[j]? with
    | none => simp [hr] at this
    | some j' =>
      have hj' : j' = j := by
        obtain ⟨hlt, hv⟩ := List.getElem?_eq_some_iff.mp hr
        rw [List.getElem_range] at hv; exact hv.symm
      rw [hr, hj'] at this
      simp only [Option.map_some, Option.some.injEq] at this
      rw [← this]; congr 1; omega

theorem bounded_of_maps (U : List Int) (inputs : Inputs) (g h : Int → Nat) (env : String → Nat)
    (hg : U.map g = inputs.map (fun p => env p.1)) (hh : U.map h = inputs.map (·.2))
    (henv : ∀ p ∈ inputs, env p.1 < p.2) : ∀ d ∈ U, g d < h d := by
  intro d hd
  obtain ⟨i, hi, rfl⟩ := List.getElem_of_mem hd
  have hl : U.length = inputs.length := by simpa using congrArg List.length hg
  have hi' : i < inputs.length := by omega
  have e1 : g U[i] = env inputs[i].1 := by
    have := List.getElem_of_eq hg (i := i) (by simpa using hi)
    simpa using this
  have e2 : h U[i] = inputs[i].2 := by
    have := List.getElem_of_eq hh (i := i) (by simpa using hi)
    simpa using this
  rw [e1, e2]; exact henv _ (List.getElem_mem _)


/-- **roundtrip_sem** — the round trip as a corollary of `toFunsor_sem` and `toData_sem`: the
    entry of `to_data(to_funsor(x, output, dim_to_name), inverse map)` at the index that carries
    `env n` on the axis of dim `dim(n)` is the entry of `x` at the index that carries `env n` on
    the axis named `n` — for every named point. -/
theorem roundtrip_sem (x : Arr α) (bs es : List Nat) (dtype : Option Nat)
    (d2n : List (Int × String)) (hd : d2n ≠ []) (hneg : ∀ p ∈ d2n, p.1 < 0)
    (hinj : (d2n.map (·.2)).Nodup) (hshape : x.shape = bs ++ es)
    (hnamed : AllNamed ((axisNames d2n bs.length).zip bs))
    (hne : packedSpec ((axisNames d2n bs.length).zip bs) ≠ []) :
    ∃ f r d0 rest, toFunsor x (some es) dtype (some d2n) = .ok f ∧
      toData f (some (swapPairs d2n)) = .ok r ∧
      sortInts (keptDims (-(bs.length : Int)) ((axisNames d2n bs.length).zip bs)) = d0 :: rest ∧
      ∀ env ev, (∀ p ∈ f.inputs, env p.1 < p.2) → inb es ev = true →
        r.get (axAllIdx (buildAx
            (sizeAt (keptDims (-(bs.length : Int)) ((axisNames d2n bs.length).zip bs)) f.sizes)
            (dimVal d2n env) d0 (-d0).toNat (d0 :: rest)) ++ ev)
          = x.get (bidx env ((axisNames d2n bs.length).zip bs) ++ ev) := by
  have hcons := consistent_axisNames d2n hinj bs
  have hfwd := axisNames_forward d2n bs
  have hnodup := packed_nodup_of_consistent _ _ _ hcons
  obtain ⟨f, hf, hinputs, _, hfshape, hsem⟩ :=
    toFunsor_sem x bs es dtype d2n hd hneg hshape hnamed hnodup
  generalize hl : (axisNames d2n bs.length).zip bs = l at *
  have hout : f.outShape = es := by
    simp only [Tensor.outShape, hfshape]; exact List.drop_left' (by simp [Tensor.sizes])
  have hwf : f.WF := by simp only [Tensor.WF, hout]; exact hfshape
  have hU : f.keys.mapM (fun k => lookup k (swapPairs d2n)) = some (keptDims (-(bs.length : Int)) l) := by
    simp only [Tensor.keys, hinputs]
    exact mapM_lookup_packed (swapPairs d2n) (-(bs.length : Int)) l hcons
  have hUn : (keptDims (-(bs.length : Int)) l).Nodup :=
    (keptDims_sorted (-(bs.length : Int)) l).imp (fun h => Int.ne_of_lt h)
  have hnegs : ∀ p ∈ swapPairs d2n, p.2 < 0 := by
    intro p hp
    simp only [swapPairs, List.mem_map] at hp
    obtain ⟨q, hq, rfl⟩ := hp
    exact hneg q hq
  obtain ⟨r, d0, rest, hSd, hr, _, hval⟩ :=
    toData_sem f (swapPairs d2n) hwf (by rw [hinputs]; exact hne) hnegs _ hU hUn
  refine ⟨f, r, d0, rest, hf, hr, hSd, ?_⟩
  intro env ev henv hev
  have hmapg : (keptDims (-(bs.length : Int)) l).map (dimVal d2n env)
      = f.inputs.map (fun p => env p.1) := by
    rw [hinputs]; exact keptDims_map_dimVal d2n env _ l hfwd
  have hmaph : (keptDims (-(bs.length : Int)) l).map
      (sizeAt (keptDims (-(bs.length : Int)) l) f.sizes) = f.inputs.map (·.2) :=
    map_sizeAt _ _ hUn (by
      have := mapM_some_length _ _ _ hU
      simpa [Tensor.keys, Tensor.sizes] using this)
  have hb := bounded_of_maps _ f.inputs _ _ env hmapg hmaph henv
  have := hval (dimVal d2n env) ev hb (by rw [hout]; exact hev)
  rw [hSd] at this
  rw [this, hmapg]
  have := hsem env ev henv hev
  simp only [Tensor.atEnv, Tensor.keys, List.map_map, Function.comp_def] at this
  exact this

/-! ### applying a permutation vs applying its inverse -/

/-- `p` is a permutation of `range n` (with distinctness explicit). -/
def IsPermP (p : List Nat) (n : Nat) : Prop :=
  p.length = n ∧ p.Nodup ∧ (∀ a ∈ p, a < n) ∧ ∀ i, i < n → i ∈ p

theorem gather_range_self (p : List Nat) (n : Nat) (h : ∀ a ∈ p, a < n) :
    gather (List.range n) p = p := by
  unfold gather
  conv => rhs; rw [← List.map_id p]
  apply List.map_congr_left
  intro a ha
  simp [List.getD_eq_getElem?_getD, List.getElem?_range (h a ha)]

/-- **perm_eq_inverse_iff_involution.**  Permuting axes with `p` and with its inverse agree on
    every array iff `p` is its own inverse, iff `p` is an involution (`p ∘ p = id`, i.e.
    `gather p p = range n`).  This is
    what separates `[unsorted.index(d) for d in sorted]` from `[sorted.index(d) for d in unsorted]`
    in `tensor_to_data`: they agree on every input with ≤ 2 named dims and on 2-cycles, and
    differ exactly when the requested dims form a permutation that is not an involution. -/
theorem perm_eq_inverse_iff_involution (p : List Nat) (n : Nat) (hp : IsPermP p n) :
    ((∀ v : List Nat, v.length = n → gather v p = gather v (invPerm p)) ↔ invPerm p = p) ∧
    (invPerm p = p ↔ gather p p = List.range n) := by
  obtain ⟨hlen, hnd, hlt, hall⟩ := hp
  have hinvlt : ∀ a ∈ invPerm p, a < n := by
    intro a ha
    simp only [invPerm, List.mem_map, List.mem_range] at ha
    obtain ⟨i, hi, rfl⟩ := ha
    rw [← hlen]; exact pos_lt_of_mem i p (hall i (by omega))
  have hgetD : ∀ j (hj : j < p.length), p.getD j 0 = p[j] := by
    intro j hj; simp [List.getD_eq_getElem?_getD, hj]
  constructor
  · constructor
    · intro h
      have := h (List.range n) (by simp)
      rw [gather_range_self p n hlt, gather_range_self (invPerm p) n hinvlt] at this
      exact this.symm
    · intro h v _; rw [h]
  · constructor
    · intro h
      apply List.ext_getElem
      · simp [gather, hlen]
      · intro i h1 h2
        have hi : i < p.length := by simpa [gather] using h1
        have hip : i ∈ p := hall i (by omega)
        have e : p[i] = pos i p := by
          have h3 : (invPerm p)[i]'(by simp [invPerm]; omega) = pos i p := by simp [invPerm]
          rw [← h3]; exact (List.getElem_of_eq h _).symm
        simp only [gather, List.getElem_map, List.getElem_range, e]
        rw [hgetD _ (pos_lt_of_mem i p hip)]
        exact getElem_pos i p (pos_lt_of_mem i p hip)
    · intro h
      apply List.ext_getElem
      · simp [invPerm]
      · intro i h1 h2
        simp only [invPerm, List.getElem_map, List.getElem_range]
        have hpi : p[i] < p.length := by rw [hlen]; exact hlt _ (List.getElem_mem _)
        have h4 : (gather p p)[i]'(by simp [gather]; omega) = i := by
          rw [List.getElem_of_eq h]; simp
        simp only [gather, List.getElem_map] at h4
        rw [hgetD _ hpi] at h4
        have := pos_getElem p (p[i]) hpi hnd
        rw [h4] at this
        exact this

/-- The 3-cycle witness: applied to distinct sizes, `p = [1,2,0]` and its inverse `[2,0,1]` move
    data to different axes. -/
theorem perm_vs_inverse_3cycle :
    IsPermP [1, 2, 0] 3 ∧ invPerm [1, 2, 0] = [2, 0, 1] ∧
    gather [10, 20, 30] [1, 2, 0] ≠ gather [10, 20, 30] (invPerm [1, 2, 0]) := by
  refine ⟨⟨rfl, by decide, by decide, by decide⟩, by decide, by decide⟩

/-- **permute_inverse_ne_3cycle.**  At the array level: transposing a 2×2×2 array of distinct
    entries with the 3-cycle `[1,2,0]` and with its inverse `[2,0,1]` gives the same SHAPE (equal
    sizes: no shape error to reveal the mistake) but different data — the signature of every
    "target position vs source axis" mix-up (`new.index(k) for k in old` vs `old.index(k) for k in
    new`).  Swaps and reversals are involutions and cannot show it. -/
def exCube : Arr Nat := ⟨[2, 2, 2], fun idx => ravel [2, 2, 2] idx⟩

def shapeFlat (r : Except Err (Arr Nat)) : List Nat × List Nat :=
  match r with
  | .ok p => (p.shape, p.toFlat)
  | .error _ => ([], [])

theorem permute_inverse_ne_3cycle :
    (shapeFlat (permute exCube [1, 2, 0])).1 = (shapeFlat (permute exCube (invPerm [1, 2, 0]))).1 ∧
    (shapeFlat (permute exCube [1, 2, 0])).2 ≠ (shapeFlat (permute exCube (invPerm [1, 2, 0]))).2 ∧
    (shapeFlat (permute exCube [1, 2, 0])).2 = [0, 4, 1, 5, 2, 6, 3, 7] ∧
    shapeFlat (permute exCube [1, 0, 2]) = shapeFlat (permute exCube (invPerm [1, 0, 2])) := by decide

/-- Below three axes every permutation is an involution: tests with ≤ 2 named dims cannot tell
    a permutation from its inverse. -/
theorem small_perms_are_involutions :
    ∀ p ∈ ([[], [0], [0, 1], [1, 0]] : List (List Nat)), invPerm p = p := by decide

/-- `to_data` with requested dims forming a 3-cycle (a ↦ -2, b ↦ -1, c ↦ -3 on a 2×3×2 tensor):
    the model places a on axis -2, b on -1, c on -3. -/
example : (match toData (⟨[("a", 2), ("b", 3), ("c", 2)],
      ⟨[2, 3, 2], fun idx => ravel [2, 3, 2] idx⟩, none⟩ : Tensor Nat)
      (some [("a", -2), ("b", -1), ("c", -3)]) with
    | .ok r => (r.shape, r.toFlat)
    | .error _ => ([], [])) = ([2, 2, 3], [0, 2, 4, 6, 8, 10, 1, 3, 5, 7, 9, 11]) := by decide


/-! ### align_tensors, eager binary op -/

/-- Every input of the tensor has the size the global assignment `sz` gives its name. -/
def SizedI (sz : String → Nat) (i : Inputs) : Prop := ∀ p ∈ i, p.2 = sz p.1

/-- Union order of `align_tensors`: the accumulated inputs, then each tensor's new inputs in
    its own order. -/
def unionSpec : Inputs → List Inputs → Inputs
  | acc, [] => acc
  | acc, i :: is => unionSpec (acc ++ i.filter (fun p => decide (p.1 ∉ acc.map (·.1)))) is

theorem union_step (sz : String → Nat) (acc i : Inputs) (hacc : (acc.map (·.1)).Nodup)
    (hi : (i.map (·.1)).Nodup) (sa : SizedI sz acc) (si : SizedI sz i) :
    oupdate acc i = acc ++ i.filter (fun p => decide (p.1 ∉ acc.map (·.1))) ∧
    ((acc ++ i.filter (fun p => decide (p.1 ∉ acc.map (·.1)))).map (·.1)).Nodup ∧
    SizedI sz (acc ++ i.filter (fun p => decide (p.1 ∉ acc.map (·.1)))) ∧
    (∀ p ∈ i, p ∈ acc ++ i.filter (fun p => decide (p.1 ∉ acc.map (·.1)))) := by
  have hag : ∀ p ∈ i, p.1 ∈ acc.map (·.1) → p ∈ acc := by
    intro p hp hk
    simp only [List.mem_map] at hk
    obtain ⟨q, hq, hqk⟩ := hk
    have : q = p := Prod.ext hqk (by rw [sa q hq, si p hp, hqk])
    exact this ▸ hq
  refine ⟨oupdate_spec i acc hi hacc hag, ?_, ?_, ?_⟩
  · rw [List.map_append, List.nodup_append]
    refine ⟨hacc, hi.sublist (List.Sublist.map _ List.filter_sublist), ?_⟩
    intro a ha b hb
    simp only [List.mem_map, List.mem_filter, decide_eq_true_eq] at hb
    obtain ⟨p, ⟨_, hp⟩, rfl⟩ := hb
    rintro rfl; exact hp (List.mem_map.mp ha)
  · intro p hp
    simp only [List.mem_append, List.mem_filter] at hp
    rcases hp with hp | hp
    · exact sa p hp
    · exact si p hp.1
  · intro p hp
    by_cases hk : p.1 ∈ acc.map (·.1)
    · exact List.mem_append_left _ (hag p hp hk)
    · exact List.mem_append_right _ (by simp [List.mem_filter, hp, hk])

theorem union_fold (sz : String → Nat) : ∀ (xs : List (Tensor α)) (acc : Inputs),
    (acc.map (·.1)).Nodup → SizedI sz acc →
    (∀ x ∈ xs, x.keys.Nodup ∧ SizedI sz x.inputs) →
    xs.foldl (fun acc x => oupdate acc x.inputs) acc = unionSpec acc (xs.map (·.inputs)) ∧
    ((unionSpec acc (xs.map (·.inputs))).map (·.1)).Nodup ∧
    SizedI sz (unionSpec acc (xs.map (·.inputs))) ∧
    (∀ p ∈ acc, p ∈ unionSpec acc (xs.map (·.inputs))) ∧
    (∀ x ∈ xs, ∀ p ∈ x.inputs, p ∈ unionSpec acc (xs.map (·.inputs)))
  | [], acc, hn, hs, _ => by simp [unionSpec, hn, hs]
  | x :: xs, acc, hn, hs, hx => by
      obtain ⟨hxk, hxs⟩ := hx x (by simp)
      obtain ⟨e, hn', hs', hsub⟩ := union_step sz acc x.inputs hn hxk hs hxs
      obtain ⟨ih1, ih2, ih3, ih4, ih5⟩ := union_fold sz xs _ hn' hs' (fun y hy => hx y (by simp [hy]))
      simp only [List.foldl_cons, List.map_cons, unionSpec, e]
      refine ⟨ih1, ih2, ih3, fun p hp => ih4 p (List.mem_append_left _ hp), ?_⟩
      intro y hy p hp
      simp only [List.mem_cons] at hy
      rcases hy with rfl | hy
      · exact ih4 p (hsub p hp)
      · exact ih5 y hy p hp

theorem mapM_zip {β γ : Type} (f : β → Option γ) (P : β → γ → Prop) : ∀ (xs : List β),
    (∀ x ∈ xs, ∃ a, f x = some a ∧ P x a) →
    ∃ as, xs.mapM f = some as ∧ as.length = xs.length ∧ ∀ p ∈ xs.zip as, P p.1 p.2
  | [], _ => ⟨[], rfl, rfl, by simp⟩
  | x :: xs, h => by
      obtain ⟨a, ha, hpa⟩ := h x (by simp)
      obtain ⟨as, hm, hl, hz⟩ := mapM_zip f P xs (fun y hy => h y (by simp [hy]))
      refine ⟨a :: as, by rw [List.mapM_cons, ha, hm]; rfl, by simp [hl], ?_⟩
      intro p hp
      simp only [List.zip_cons_cons, List.mem_cons] at hp
      rcases hp with rfl | hp
      · exact hpa
      · exact hz p hp

/-- What `alignTensor_sem` says about one aligned array `r` of tensor `x` in the target `U`. -/
def AlignedTo (U : Inputs) (expand : Bool) (x : Tensor α) (r : Arr α) : Prop :=
  r.shape = (if expand then U.map (·.2) else U.map (sizeOr1 x.inputs)) ++ x.outShape ∧
  ∀ env ev, (∀ p ∈ U, env p.1 < p.2) → inb x.outShape ev = true →
    r.get (U.map (fun p => if expand || decide (p.1 ∈ x.keys) then env p.1 else 0) ++ ev)
      = x.atEnv env ev

/-- **alignTensors_sem.**  For well-formed tensors with consistent sizes, `align_tensors`
    succeeds; the joint inputs are the first tensor's inputs followed by each later tensor's new
    inputs in order (`unionSpec`), with distinct names; there is one array per tensor; and each
    array has the broadcastable shape and the value of its tensor at every joint named point. -/
theorem alignTensors_sem (sz : String → Nat) (xs : List (Tensor α)) (expand : Bool)
    (hx : ∀ x ∈ xs, x.WF ∧ x.keys.Nodup ∧ SizedI sz x.inputs) :
    ∃ as, alignTensors xs expand = .ok (unionInputs xs, as) ∧
      unionInputs xs = unionSpec [] (xs.map (·.inputs)) ∧
      ((unionInputs xs).map (·.1)).Nodup ∧ SizedI sz (unionInputs xs) ∧
      as.length = xs.length ∧ ∀ p ∈ xs.zip as, AlignedTo (unionInputs xs) expand p.1 p.2 := by
  obtain ⟨hU, hUn, hUs, _, hsub⟩ := union_fold sz xs [] (by simp) (by simp [SizedI])
    (fun x h => ⟨(hx x h).2.1, (hx x h).2.2⟩)
  have hUeq : unionInputs xs = unionSpec [] (xs.map (·.inputs)) := hU
  rw [← hUeq] at hUn hUs hsub
  obtain ⟨as, hm, hl, hz⟩ := mapM_zip
    (fun x => okOrNone (alignTensor (unionInputs xs) x expand))
    (AlignedTo (unionInputs xs) expand) xs (by
      intro x hxm
      obtain ⟨r, hr, hs, hv⟩ := alignTensor_sem x (unionInputs xs) expand (hx x hxm).1
        (hx x hxm).2.1 hUn (hsub x hxm)
      exact ⟨r, by simp [hr, okOrNone], hs, hv⟩)
  refine ⟨as, ?_, hUeq, hUn, hUs, hl, hz⟩
  simp only [alignTensors]
  rw [hm]


/-- A scalar-output tensor that is well formed, has distinct input names and sizes given by `sz`. -/
def TensorOK (sz : String → Nat) (t : Tensor α) : Prop :=
  t.WF ∧ t.keys.Nodup ∧ SizedI sz t.inputs ∧ t.outShape = []

theorem axAllIdx_alignAxes (x : Tensor α) (U : Inputs) (env : String → Nat) :
    axAllIdx (alignAxes x U env)
      = U.map (fun p => if false || decide (p.1 ∈ x.keys) then env p.1 else 0) := by
  simp only [axAllIdx, alignAxes, List.map_map, Function.comp_def, Bool.false_or]

theorem sizeOr1_cases (sz : String → Nat) (x : Tensor α) (hk : x.keys.Nodup)
    (hs : SizedI sz x.inputs) (U : Inputs) (hU : SizedI sz U) :
    (∀ p ∈ U, p.1 ∈ x.keys → sizeOr1 x.inputs p = p.2) ∧
    (∀ p ∈ U, p.1 ∉ x.keys → sizeOr1 x.inputs p = 1) := by
  constructor
  · intro p hp hk'
    simp only [Tensor.keys, List.mem_map] at hk'
    obtain ⟨q, hq, hqk⟩ := hk'
    have h3 := lookup_of_mem_nodup x.inputs q.1 q.2 hk hq
    simp only [sizeOr1, ← hqk, h3]
    rw [hs q hq, hU p hp, hqk]
  · intro p _ hk'
    simp only [sizeOr1, lookup_none_of_not_mem p.1 x.inputs hk']

/-- **binaryT_sem.**  The eager binary op on two scalar-output tensors (align, then broadcast the
    op): the result's inputs are the union in `align_tensors` order, it is again well formed, and
    its value at every named point is the op applied to the operands' values there. -/
theorem binaryT_sem (sz : String → Nat) (f : α → α → α) (l r : Tensor α)
    (hl : TensorOK sz l) (hr : TensorOK sz r) :
    ∃ t, binaryT f l r = .ok t ∧ t.inputs = unionInputs [l, r] ∧ TensorOK sz t ∧
      ∀ env, (∀ n, env n < sz n) → t.atEnv env [] = f (l.atEnv env []) (r.atEnv env []) := by
  obtain ⟨hlw, hlk, hls, hlo⟩ := hl
  obtain ⟨hrw, hrk, hrs, hro⟩ := hr
  obtain ⟨as, hal, hUeq, hUn, hUs, hlen, hz⟩ := alignTensors_sem sz [l, r] false (by
    intro x hx
    simp only [List.mem_cons, List.not_mem_nil, or_false] at hx
    rcases hx with rfl | rfl
    · exact ⟨hlw, hlk, hls⟩
    · exact ⟨hrw, hrk, hrs⟩)
  unfold binaryT
  by_cases he : l.inputs = r.inputs
  · simp only [he, if_true]
    have hUl : unionInputs [l, r] = r.inputs := by
      have e1 : ([] : Inputs) ++ r.inputs.filter (fun p => decide (p.1 ∉ ([] : List String)))
          = r.inputs := by
        simp only [List.nil_append]
        exact List.filter_eq_self.mpr (by intro p _; simp)
      have e2 : r.inputs.filter (fun p => decide (p.1 ∉ r.inputs.map (·.1))) = [] := by
        rw [List.filter_eq_nil_iff]; intro p hp
        simp [List.mem_map_of_mem (f := (·.1)) hp]
      rw [hUeq]
      simp only [List.map_cons, List.map_nil, unionSpec, he]
      rw [e1, e2, List.append_nil]
    refine ⟨_, rfl, hUl.symm, ⟨?_, hrk, hrs, ?_⟩, ?_⟩
    · simp only [Tensor.WF, Tensor.sizes, Tensor.outShape, ← he]
      exact hlw
    · simp only [Tensor.outShape, ← he]; exact hlo
    · intro env _
      simp only [Tensor.atEnv, Tensor.keys, he]
  · simp only [he, if_false, hal]
    match as, hlen, hz with
    | [a, b], _, hz =>
      have ha := hz (l, a) (by simp)
      have hb := hz (r, b) (by simp)
      simp only [AlignedTo, Bool.false_eq_true, if_false, hlo, hro, List.append_nil] at ha hb
      refine ⟨_, rfl, rfl, ⟨?_, hUn, hUs, ?_⟩, ?_⟩
      · simp [Tensor.WF, Tensor.sizes, Tensor.outShape]
      · simp [Tensor.outShape]
      · intro env henv
        have hb' : ∀ p ∈ unionInputs [l, r], env p.1 < p.2 := by
          intro p hp; rw [hUs p hp]; exact henv p.1
        obtain ⟨l1, l0⟩ := sizeOr1_cases sz l hlk hls _ hUs
        obtain ⟨r1, r0⟩ := sizeOr1_cases sz r hrk hrs _ hUs
        have cl := clip_alignAxes l env [] [] rfl (unionInputs [l, r]) hb' l1 l0
        have cr := clip_alignAxes r env [] [] rfl (unionInputs [l, r]) hb' r1 r0
        simp only [List.append_nil] at cl cr
        simp only [Tensor.atEnv, Tensor.keys, List.append_nil, List.map_map, Function.comp_def]
        rw [ha.1, hb.1, cl, cr, axAllIdx_alignAxes, axAllIdx_alignAxes]
        have va := ha.2 env [] hb' rfl
        have vb := hb.2 env [] hb' rfl
        simp only [List.append_nil, Tensor.atEnv, Tensor.keys, List.map_map, Function.comp_def] at va vb
        simp only [Tensor.keys]
        rw [va, vb]


/-! ### materialize followed by eager evaluation -/

/-- Every leaf of the term is consistent with the size assignment `sz`; no real variable. -/
def TermOK (sz : String → Nat) : Term α → Prop
  | .var n s => s = sz n
  | .rvar _ => False
  | .tensor t => TensorOK sz t
  | .binary _ l r => TermOK sz l ∧ TermOK sz r
  | .slice n a b c _ => sliceSize a b c = sz n

theorem sliceTensor_ok (ofNat : Nat → α) (sz : String → Nat) (n : String) (a b c d : Nat)
    (h : sliceSize a b c = sz n) : TensorOK sz (sliceTensor ofNat n a b c d) := by
  refine ⟨?_, ?_, ?_, ?_⟩ <;>
    simp [sliceTensor, Tensor.WF, Tensor.sizes, Tensor.outShape, Tensor.keys, SizedI, h]

theorem arange_ok (ofNat : Nat → α) (sz : String → Nat) (n : String) :
    TensorOK sz (arange ofNat n (sz n)) := by
  refine ⟨?_, ?_, ?_, ?_⟩ <;> simp [arange, Tensor.WF, Tensor.sizes, Tensor.outShape, Tensor.keys, SizedI]

/-- **eval_sem.**  Eager evaluation of a variable-free term whose leaves are consistent returns a
    tensor whose value at every named point is the term's denotation. -/
theorem eval_sem (ofNat : Nat → α) (ops : Nat → α → α → α) (renv : String → α)
    (sz : String → Nat) : ∀ (t : Term α), TermOK sz t → intVars t = [] →
    ∃ T, t.eval ops = some T ∧ TensorOK sz T ∧ T.inputs = t.inputs ∧
      ∀ env, (∀ n, env n < sz n) → T.atEnv env [] = t.denote ofNat ops renv env
  | .var n s, _, hv => by simp [intVars] at hv
  | .slice n a b c d, _, hv => by simp [intVars] at hv
  | .rvar n, h, _ => by simp [TermOK] at h
  | .tensor t, h, _ => ⟨t, rfl, h, rfl, fun _ _ => rfl⟩
  | .binary op l r, h, hv => by
      simp only [intVars, List.append_eq_nil_iff] at hv
      obtain ⟨L, hL, hLok, hLi, hLv⟩ := eval_sem ofNat ops renv sz l h.1 hv.1
      obtain ⟨R, hR, hRok, hRi, hRv⟩ := eval_sem ofNat ops renv sz r h.2 hv.2
      obtain ⟨T, hT, hTi, hTok, hTv⟩ := binaryT_sem sz (ops op) L R hLok hRok
      refine ⟨T, by simp [Term.eval, hL, hR, hT], hTok, ?_, ?_⟩
      · have : unionInputs [L, R] = oupdate L.inputs R.inputs := by
          have := fromPairs_nodup L.inputs hLok.2.1
          simp only [fromPairs] at this
          simp [unionInputs, this]
        rw [hTi, this, hLi, hRi]; rfl
      · intro env henv
        rw [hTv env henv, hLv env henv, hRv env henv]; rfl

theorem materialize_ok (ofNat : Nat → α) (sz : String → Nat) : ∀ (t : Term α), TermOK sz t →
    TermOK sz (t.materialize ofNat)
  | .var n s, h => by
      simp only [TermOK] at h
      simp only [Term.materialize, TermOK, h]; exact arange_ok ofNat sz n
  | .rvar n, h => by simp [TermOK] at h
  | .tensor t, h => h
  | .binary op l r, h => ⟨materialize_ok ofNat sz l h.1, materialize_ok ofNat sz r h.2⟩
  | .slice n a b c d, h => by
      simp only [TermOK] at h
      simp only [Term.materialize, TermOK]; exact sliceTensor_ok ofNat sz n a b c d h

/-- `materialize` does not change the declared inputs (names, sizes, order). -/
theorem materialize_inputs (ofNat : Nat → α) : ∀ (t : Term α),
    (t.materialize ofNat).inputs = t.inputs
  | .var _ _ => rfl
  | .rvar _ => rfl
  | .tensor _ => rfl
  | .slice _ _ _ _ _ => rfl
  | .binary _ l r => by
      simp only [Term.materialize, Term.inputs, materialize_inputs ofNat l, materialize_inputs ofNat r]

/-- **materialize_eval_sem.**  `materialize` (Variable ↦ arange tensor, Slice(start, stop, step) ↦
    the arithmetic-progression tensor `start + step * arange(size)`) followed by eager evaluation
    yields a ground tensor that (i) has exactly the lazy term's declared inputs — same names, same
    sizes, same order — and (ii) denotes exactly the original lazy term at every named point. -/
theorem materialize_eval_sem (ofNat : Nat → α) (ops : Nat → α → α → α) (renv : String → α)
    (sz : String → Nat) (t : Term α) (h : TermOK sz t) :
    ∃ T, (t.materialize ofNat).eval ops = some T ∧ TensorOK sz T ∧ T.inputs = t.inputs ∧
      ∀ env, (∀ n, env n < sz n) → T.atEnv env [] = t.denote ofNat ops renv env := by
  obtain ⟨T, hT, hok, hi, hv⟩ := eval_sem ofNat ops renv sz (t.materialize ofNat)
    (materialize_ok ofNat sz t h) (materialize_intVars ofNat t)
  exact ⟨T, hT, hok, by rw [hi, materialize_inputs], fun env henv => by rw [hv env henv, materialize_sem]⟩

/-! ### lazy alignment is the identity on the denoted function -/

/-- Tensor leaves are well formed, scalar, with distinct input names. -/
def LeavesOK : LTerm α → Prop
  | .var _ _ => True
  | .tensor t => t.WF ∧ t.keys.Nodup ∧ t.outShape = []
  | .binary _ l r => LeavesOK l ∧ LeavesOK r
  | .align t _ => LeavesOK t
  | .contract _ _ _ l r => LeavesOK l ∧ LeavesOK r

theorem mkAlign_denote (ofNat : Nat → α) (ops : Nat → α → α → α) (red : Nat → List α → α)
    (t t' : LTerm α) (names : List String) (h : mkAlign t names = some t') (env : String → Nat) :
    t'.denote ofNat ops red env = t.denote ofNat ops red env := by
  unfold mkAlign at h
  split at h
  · cases h
  · split at h <;> cases h <;> rfl

theorem funsorAlign_denote (ofNat : Nat → α) (ops : Nat → α → α → α) (red : Nat → List α → α)
    (t t' : LTerm α) (names : List String) (h : funsorAlign t names = some t')
    (env : String → Nat) : t'.denote ofNat ops red env = t.denote ofNat ops red env := by
  unfold funsorAlign at h
  split at h
  · cases h; rfl
  · exact mkAlign_denote ofNat ops red t t' names h env

theorem reduceVars_congr (red : List α → α) : ∀ (rv : Inputs) (b b' : (String → Nat) → α),
    (∀ e, b e = b' e) → ∀ env, reduceVars red rv b env = reduceVars red rv b' env
  | [], _, _, h, env => h env
  | (v, n) :: rest, b, b', h, env => by
      simp only [reduceVars]
      congr 1
      apply List.map_congr_left
      intro i _
      exact reduceVars_congr red rest b b' h _

/-- **alignT_denote.**  `x.align(names)` for lazy terms — the `Align` wrapper, `Align.align`,
    `Contraction.align` (which re-aligns its operands and may wrap the result), and `Tensor.align`
    at the leaves — never changes the value at any named point. -/
theorem alignT_denote (ofNat : Nat → α) (ops : Nat → α → α → α) (red : Nat → List α → α) :
    ∀ (t : LTerm α) (names : List String) (t' : LTerm α), LeavesOK t → names.Nodup →
    t.alignT names = some t' → ∀ env, t'.denote ofNat ops red env = t.denote ofNat ops red env
  | .var n s, names, t', _, _, h, env => funsorAlign_denote ofNat ops red _ t' names h env
  | .binary op l r, names, t', _, _, h, env => funsorAlign_denote ofNat ops red _ t' names h env
  | .tensor t, names, t', hok, hn, h, env => by
      simp only [LTerm.alignT] at h
      cases ha : t.align names with
      | error e => simp [ha] at h
      | ok t2 =>
        simp only [ha, Option.some.injEq] at h
        subst h
        have hsub : ∀ n ∈ names, n ∈ t.keys := by
          by_cases hall : (names.all fun n => decide (n ∈ t.keys)) = true
          · intro n hn'; simpa using (List.all_eq_true.mp hall) n hn'
          · simp [Tensor.align, hall] at ha
        obtain ⟨t3, h3, _, _, _, _, hv⟩ := align_sem t names hok.1 hok.2.1 hn hsub
        rw [ha] at h3
        cases h3
        simp only [LTerm.denote]
        exact hv env [] (by rw [hok.2.2])
  | .align t old, names, t', hok, hn, h, env => by
      simp only [LTerm.alignT] at h
      simp only [LTerm.denote]
      exact alignT_denote ofNat ops red t names t' hok hn h env
  | .contract rop bop rv l r, names, t', hok, hn, h, env => by
      simp only [LTerm.alignT] at h
      split at h
      · cases h
      · cases hl : l.alignT (names.filter (· ∈ l.keys)) with
        | none => simp [hl] at h
        | some l' =>
          cases hr : r.alignT (names.filter (· ∈ r.keys)) with
          | none => simp [hl, hr] at h
          | some r' =>
            simp only [hl, hr] at h
            have ihl := alignT_denote ofNat ops red l _ l' hok.1 (hn.sublist List.filter_sublist) hl
            have ihr := alignT_denote ofNat ops red r _ r' hok.2 (hn.sublist List.filter_sublist) hr
            have hres : ∀ env, (LTerm.contract rop bop rv l' r').denote ofNat ops red env
                = (LTerm.contract rop bop rv l r).denote ofNat ops red env := by
              intro env
              simp only [LTerm.denote]
              exact reduceVars_congr _ rv _ _ (fun e => by rw [ihl e, ihr e]) env
            split at h
            · cases h; exact hres env
            · rw [mkAlign_denote ofNat ops red _ t' names h env]; exact hres env

/-! ### Delta.align -/

theorem perm_insertBy {β : Type} (key : β → Nat) (a : β) : ∀ (l : List β),
    (insertBy key a l).Perm (a :: l)
  | [] => List.Perm.refl _
  | b :: l => by
      simp only [insertBy]
      split
      · exact List.Perm.refl _
      · exact ((perm_insertBy key a l).cons b).trans (List.Perm.swap a b l)

theorem perm_sortBy {β : Type} (key : β → Nat) : ∀ (l : List β), (sortBy key l).Perm l
  | [] => List.Perm.refl _
  | a :: l => (perm_insertBy key a _).trans ((perm_sortBy key l).cons a)

/-- **deltaAlign_perm.**  `Delta.align` only reorders the `(name, (point, log_density))` terms:
    the result is a permutation of them (so the name ↦ point/density map, and with it the denoted
    sum of point masses, is unchanged). -/
theorem deltaAlign_perm {β : Type} (terms r : List (String × β)) (names : List String)
    (h : deltaAlign terms names = .ok r) : r.Perm terms := by
  unfold deltaAlign at h
  split at h
  · cases h
  · split at h
    · cases h; exact List.Perm.refl _
    · split at h
      · cases h
      · cases h; exact perm_sortBy _ _


theorem insertBy_sorted {β : Type} (key : β → Nat) (a : β) : ∀ (l : List β),
    l.Pairwise (fun x y => key x ≤ key y) → (insertBy key a l).Pairwise (fun x y => key x ≤ key y)
  | [], _ => by simp [insertBy]
  | b :: l, h => by
      simp only [List.pairwise_cons] at h
      simp only [insertBy]
      split
      · rename_i hab
        simp only [List.pairwise_cons, List.mem_cons]
        refine ⟨?_, h.1, h.2⟩
        rintro x (rfl | hx)
        · exact hab
        · exact Nat.le_trans hab (h.1 x hx)
      · rename_i hab
        simp only [List.pairwise_cons]
        refine ⟨?_, insertBy_sorted key a l h.2⟩
        intro x hx
        have := (perm_insertBy key a l).mem_iff.mp hx
        simp only [List.mem_cons] at this
        rcases this with rfl | hx
        · omega
        · exact h.1 x hx

theorem sortBy_sorted {β : Type} (key : β → Nat) : ∀ (l : List β),
    (sortBy key l).Pairwise (fun x y => key x ≤ key y)
  | [] => by simp [sortBy]
  | a :: l => insertBy_sorted key a _ (sortBy_sorted key l)

/-- **deltaAlign_keys.**  With distinct term names and `names` a reordering of them,
    `Delta.align(names)` puts the terms in exactly the order `names`. -/
theorem deltaAlign_keys {β : Type} (terms r : List (String × β)) (names : List String)
    (hn : names.Nodup) (ht : (terms.map (·.1)).Nodup) (hset : ∀ a, a ∈ names ↔ a ∈ terms.map (·.1))
    (h : deltaAlign terms names = .ok r) : r.map (·.1) = names := by
  unfold deltaAlign at h
  split at h
  · cases h
  · split at h
    · rename_i he
      cases h
      simp only [Bool.or_eq_true, List.isEmpty_iff, decide_eq_true_eq] at he
      rcases he with he | he
      · subst he
        cases hterms : terms with
        | nil => rfl
        | cons p ps =>
          have := (hset p.1).mpr (by simp [hterms])
          simp at this
      · exact he.symm
    · split at h
      · cases h
      · cases h
        have hperm : ((sortBy (fun t => pos t.1 names) terms).map (·.1)).Perm names :=
          ((perm_sortBy _ terms).map (·.1)).trans
            ((List.perm_ext_iff_of_nodup ht hn).mpr (fun a => (hset a).symm))
        have hs1 : ((sortBy (fun t => pos t.1 names) terms).map (·.1)).Pairwise
            (fun a b => pos a names ≤ pos b names) := by
          rw [List.pairwise_map]; exact sortBy_sorted _ terms
        have hs2 : names.Pairwise (fun a b => pos a names ≤ pos b names) := by
          rw [List.pairwise_iff_getElem]
          intro i j hi hj hij
          rw [pos_getElem names i hi hn, pos_getElem names j hj hn]; omega
        refine List.Perm.eq_of_pairwise ?_ hs1 hs2 hperm
        intro a b ha hb h1 h2
        exact pos_inj_of_mem names a b (hperm.mem_iff.mp ha) hb (Nat.le_antisymm h1 h2)


/-! ### to_funsor ∘ to_data: the converse round trip -/

theorem mapM_congr_opt {β γ : Type} (f g : β → Option γ) : ∀ (l : List β),
    (∀ x ∈ l, f x = g x) → l.mapM f = l.mapM g
  | [], _ => rfl
  | a :: l, h => by
      rw [List.mapM_cons, List.mapM_cons, h a (by simp),
        mapM_congr_opt f g l (fun x hx => h x (by simp [hx]))]

theorem lookup_zip_none {κ β : Type} [DecidableEq κ] (k : κ) : ∀ (K : List κ) (V : List β),
    k ∉ K → lookup k (K.zip V) = none
  | [], _, _ => by simp [lookup]
  | _ :: _, [], _ => by simp [lookup]
  | a :: K, v :: V, h => by
      simp only [List.mem_cons, not_or] at h
      have : ¬ a = k := fun e => h.1 e.symm
      simp only [List.zip_cons_cons, lookup, this, if_false]
      exact lookup_zip_none k K V h.2

theorem lookup_zip_getElem {κ β : Type} [DecidableEq κ] : ∀ (K : List κ) (V : List β) (i : Nat)
    (hi : i < K.length) (hv : i < V.length), K.Nodup → lookup K[i] (K.zip V) = some V[i]
  | [], _, _, hi, _, _ => by simp at hi
  | _ :: _, [], _, _, hv, _ => by simp at hv
  | a :: K, v :: V, 0, _, _, _ => by simp [lookup]
  | a :: K, v :: V, i + 1, hi, hv, hn => by
      simp only [List.nodup_cons] at hn
      have hi' : i < K.length := by simpa using hi
      have : ¬ a = K[i] := fun e => hn.1 (e ▸ List.getElem_mem _)
      simp only [List.zip_cons_cons, List.getElem_cons_succ, lookup, this, if_false]
      exact lookup_zip_getElem K V i hi' (by simpa using hv) hn.2

theorem mapM_lookup_zip {κ β : Type} [DecidableEq κ] : ∀ (K : List κ) (V : List β),
    K.Nodup → K.length = V.length → K.mapM (fun k => lookup k (K.zip V)) = some V
  | [], [], _, _ => rfl
  | [], _ :: _, _, h => by simp at h
  | _ :: _, [], _, h => by simp at h
  | a :: K, v :: V, hn, hl => by
      simp only [List.nodup_cons] at hn
      rw [List.mapM_cons]
      have e : K.mapM (fun k => lookup k ((a :: K).zip (v :: V))) = K.mapM (fun k => lookup k (K.zip V)) :=
        mapM_congr_opt _ _ K (fun x hx => by
          have : ¬ a = x := fun e => hn.1 (e ▸ hx)
          simp [lookup, this])
      rw [e, mapM_lookup_zip K V hn.2 (by simpa using hl)]
      simp [lookup]

/-- Names of the `n` axes starting at dim `off`. -/
def namesFrom (d2n : List (Int × String)) : Int → Nat → List (Option String)
  | _, 0 => []
  | off, n + 1 => lookup off d2n :: namesFrom d2n (off + 1) n

theorem map_range'_namesFrom (d2n : List (Int × String)) (c : Int) : ∀ (n s : Nat),
    (List.range' s n).map (fun (j : Nat) => lookup ((j : Int) + c) d2n) = namesFrom d2n ((s : Int) + c) n
  | 0, _ => rfl
  | n + 1, s => by
      simp only [List.range'_succ, List.map_cons, namesFrom, List.cons.injEq, true_and]
      rw [map_range'_namesFrom d2n c n (s + 1)]
      congr 1; push_cast; omega

theorem axisNames_eq_namesFrom (d2n : List (Int × String)) (nb : Nat) :
    axisNames d2n nb = namesFrom d2n (-(nb : Int)) nb := by
  have := map_range'_namesFrom d2n (-(nb : Int)) nb 0
  simp only [Int.natCast_zero, Int.zero_add] at this
  rw [← this, axisNames, List.range_eq_range']
  apply List.map_congr_left
  intro j _
  rw [Int.sub_eq_add_neg]

/-- The axes rebuilt by `to_funsor` from the array `to_data` produced: every non-trivial axis is
    named, the index `to_funsor` reads is the index `to_data` wrote, and every packed input is the
    input requested on its dim. -/
theorem rebuilt_axes (d2n : List (Int × String)) (env : String → Nat) (h g0 : Int → Nat)
    (U : List Int) (hnone : ∀ d, d ∉ U → lookup d d2n = none)
    (hsome : ∀ d ∈ U, ∃ k, lookup d d2n = some k) :
    ∀ (n : Nat) (off : Int) (S : List Int), S.Pairwise (· < ·) →
    (∀ d ∈ S, off ≤ d ∧ d < off + n) → (∀ d, off ≤ d → (d ∈ S ↔ d ∈ U)) →
    AllNamed ((namesFrom d2n off n).zip (axAllSizes (buildAx h g0 off n S))) ∧
    ((∀ d ∈ U, dimVal d2n env d < h d) →
      bidx env ((namesFrom d2n off n).zip (axAllSizes (buildAx h g0 off n S)))
        = axAllIdx (buildAx h (dimVal d2n env) off n S)) ∧
    ∀ p ∈ packedSpec ((namesFrom d2n off n).zip (axAllSizes (buildAx h g0 off n S))),
      ∃ d ∈ S, lookup d d2n = some p.1 ∧ p.2 = h d
  | 0, off, S, _, _, _ => by
      simp [namesFrom, buildAx, axAllSizes, AllNamed, bidx, axAllIdx, packedSpec]
  | n + 1, off, [], hs, hbd, hm => by
      have ih := rebuilt_axes d2n env h g0 U hnone hsome n (off + 1) [] (by simp) (by simp)
        (fun d hd => hm d (by omega))
      have hoff : lookup off d2n = none := hnone off (fun hu => by
        have := (hm off (Int.le_refl _)).mpr hu; simp at this)
      simp only [namesFrom, buildAx, axAllSizes, List.map_cons, List.zip_cons_cons, hoff] at ih ⊢
      refine ⟨?_, ?_, ?_⟩
      · intro p hp
        simp only [List.mem_cons] at hp
        rcases hp with rfl | hp
        · intro _; rfl
        · exact ih.1 p hp
      · intro hb
        simp only [bidx, axAllIdx, List.map_cons, Bool.false_eq_true, if_false]
        have := ih.2.1 hb; simp only [axAllIdx] at this; rw [this]
      · simpa [packedSpec] using ih.2.2
  | n + 1, off, d :: S, hs, hbd, hm => by
      simp only [List.pairwise_cons] at hs
      have hd0 := hbd d (by simp)
      by_cases hd : d = off
      · -- a requested axis
        have hbd' : ∀ x ∈ S, off + 1 ≤ x ∧ x < off + 1 + n := by
          intro x hx
          have h1 := hs.1 x hx
          have h2 := hbd x (by simp [hx])
          push_cast at h2; omega
        have hm' : ∀ x, off + 1 ≤ x → (x ∈ S ↔ x ∈ U) := by
          intro x hx
          rw [← hm x (by omega)]
          simp only [List.mem_cons]
          constructor
          · exact Or.inr
          · rintro (h | h)
            · omega
            · exact h
        have ih := rebuilt_axes d2n env h g0 U hnone hsome n (off + 1) S hs.2 hbd' hm'
        have hdU : d ∈ U := (hm d (by omega)).mp (by simp)
        simp only [namesFrom, buildAx, hd, if_true, axAllSizes, List.map_cons, List.zip_cons_cons] at ih ⊢
        rw [hd] at hdU
        cases hl : lookup off d2n with
        | none =>
          obtain ⟨k, hk⟩ := hsome off hdU
          rw [hl] at hk; cases hk
        | some nm =>
          refine ⟨?_, ?_, ?_⟩
          · intro p hp
            simp only [List.mem_cons] at hp
            rcases hp with rfl | hp
            · intro hnn; simp at hnn
            · exact ih.1 p hp
          · intro hb
            have hlt := hb off hdU
            simp only [dimVal, hl] at hlt
            simp only [bidx, axAllIdx, List.map_cons, if_true, dimVal, hl]
            have := ih.2.1 hb; simp only [axAllIdx] at this; rw [this]
            congr 1
            by_cases h1 : h off = 1
            · simp only [h1, ne_eq, not_true_eq_false, if_false]; omega
            · simp only [ne_eq, h1, not_false_eq_true, if_true]
          · intro p hp
            simp only [packedSpec] at hp
            by_cases h1 : h off = 1
            · simp only [h1, ne_eq, not_true_eq_false, if_false] at hp
              obtain ⟨x, hx, hx2⟩ := ih.2.2 p hp
              exact ⟨x, by simp [hx], hx2⟩
            · simp only [ne_eq, h1, not_false_eq_true, if_true, List.mem_cons] at hp
              rcases hp with rfl | hp
              · exact ⟨off, by simp [hd], hl, rfl⟩
              · obtain ⟨x, hx, hx2⟩ := ih.2.2 p hp
                exact ⟨x, by simp [hx], hx2⟩
      · -- a filler axis
        have hbd' : ∀ x ∈ d :: S, off + 1 ≤ x ∧ x < off + 1 + n := by
          intro x hx
          simp only [List.mem_cons] at hx
          rcases hx with rfl | hx
          · push_cast at hd0; omega
          · have h1 := hs.1 x hx
            have h2 := hbd x (by simp [hx])
            push_cast at h2; omega
        have ih := rebuilt_axes d2n env h g0 U hnone hsome n (off + 1) (d :: S)
          (by simp only [List.pairwise_cons]; exact hs) hbd' (fun x hx => hm x (by omega))
        have hoffS : off ∉ d :: S := by
          intro hmem
          have := hbd' off hmem; omega
        have hoff : lookup off d2n = none := hnone off (fun hu => hoffS ((hm off (Int.le_refl _)).mpr hu))
        simp only [namesFrom, buildAx, hd, if_false, axAllSizes, List.map_cons, List.zip_cons_cons, hoff] at ih ⊢
        refine ⟨?_, ?_, ?_⟩
        · intro p hp
          simp only [List.mem_cons] at hp
          rcases hp with rfl | hp
          · intro _; rfl
          · exact ih.1 p hp
        · intro hb
          simp only [bidx, axAllIdx, List.map_cons, Bool.false_eq_true, if_false]
          have := ih.2.1 hb; simp only [axAllIdx] at this; rw [this]
        · simpa [packedSpec] using ih.2.2


theorem packed_ne_one : ∀ (l : List (Option String × Nat)), ∀ p ∈ packedSpec l, p.2 ≠ 1
  | [], p, h => by simp [packedSpec] at h
  | (none, s) :: l, p, h => packed_ne_one l p (by simpa [packedSpec] using h)
  | (some n, s) :: l, p, h => by
      by_cases hs : s = 1
      · exact packed_ne_one l p (by simpa [packedSpec, hs] using h)
      · simp only [packedSpec, ne_eq, hs, not_false_eq_true, if_true, List.mem_cons] at h
        rcases h with rfl | h
        · exact hs
        · exact packed_ne_one l p h

/-- **toFunsor_toData_roundtrip.**  For a well-formed tensor `x` with distinct input names and ANY
    assignment `U` of pairwise distinct negative dims to its inputs (`name_to_dim = zip keys U`),
    `to_funsor(to_data(x, name_to_dim), x.output, dim_to_name)` with the inverse map
    `dim_to_name = zip U keys` succeeds, keeps the dtype, has only inputs of `x` (those of size ≠ 1,
    now in dim order) and equals `x` at every named point and event index. -/
theorem toFunsor_toData_roundtrip (x : Tensor α) (U : List Int) (hwf : x.WF) (hK : x.keys.Nodup)
    (hin : x.inputs ≠ []) (hU : U.Nodup) (hneg : ∀ d ∈ U, d < 0)
    (hlen : U.length = x.inputs.length) :
    ∃ r f2, toData x (some (x.keys.zip U)) = .ok r ∧
      toFunsor r (some x.outShape) x.dtype (some (U.zip x.keys)) = .ok f2 ∧
      f2.dtype = x.dtype ∧ (∀ p ∈ f2.inputs, p ∈ x.inputs ∧ p.2 ≠ 1) ∧
      ∀ env ev, (∀ p ∈ x.inputs, env p.1 < p.2) → inb x.outShape ev = true →
        f2.atEnv env ev = x.atEnv env ev := by
  have hklen : x.keys.length = U.length := by simp [Tensor.keys, hlen]
  have hslen : x.sizes.length = U.length := by simp [Tensor.sizes, hlen]
  generalize hd2n : U.zip x.keys = d2n
  have hmapM : x.keys.mapM (fun k => lookup k (x.keys.zip U)) = some U :=
    mapM_lookup_zip x.keys U hK hklen
  have hn2dneg : ∀ p ∈ x.keys.zip U, p.2 < 0 := fun p hp => hneg p.2 (List.of_mem_zip hp).2
  obtain ⟨r, d0, rest, hSd, hr, hshape, hval⟩ :=
    toData_sem x (x.keys.zip U) hwf hin hn2dneg U hmapM hU
  generalize hh : sizeAt U x.sizes = h at *
  have hsz : U.map h = x.sizes := by rw [← hh]; exact map_sizeAt U x.sizes hU hslen.symm
  -- facts about the sorted dims
  have hS := sortInts_sorted U hU
  have hiff : ∀ a, a ∈ sortInts U ↔ a ∈ U := fun a => mem_sortInts a U
  rw [hSd] at hS hiff hshape hval
  have hd0neg : d0 < 0 := hneg d0 ((hiff d0).mp (by simp))
  have hD : ((-d0).toNat : Int) = -d0 := by omega
  have hbounds : ∀ d ∈ d0 :: rest, d0 ≤ d ∧ d < d0 + ((-d0).toNat : Nat) := by
    intro d hd
    have hdn := hneg d ((hiff d).mp hd)
    simp only [List.pairwise_cons] at hS
    simp only [List.mem_cons] at hd
    rcases hd with rfl | hd
    · omega
    · have := hS.1 d hd; omega
  -- facts about dim_to_name
  have hnone : ∀ d, d ∉ U → lookup d d2n = none := fun d hd => by
    rw [← hd2n]; exact lookup_zip_none d U x.keys hd
  have hget : ∀ i (hi : i < U.length), lookup U[i] d2n = some (x.keys[i]'(by omega)) := fun i hi => by
    rw [← hd2n]; exact lookup_zip_getElem U x.keys i hi (by omega) hU
  have hsome : ∀ d ∈ U, ∃ k, lookup d d2n = some k := fun d hd => by
    obtain ⟨i, hi, rfl⟩ := List.getElem_of_mem hd
    exact ⟨_, hget i hi⟩
  have hd2nne : d2n ≠ [] := by
    rw [← hd2n]
    cases hU' : U with
    | nil => rw [hU'] at hlen; exact absurd (List.eq_nil_of_length_eq_zero hlen.symm) hin
    | cons u us =>
      cases hk : x.keys with
      | nil => rw [hU', hk] at hklen; simp at hklen
      | cons k ks => simp
  have hd2nneg : ∀ p ∈ d2n, p.1 < 0 := fun p hp => by
    rw [← hd2n] at hp; exact hneg p.1 (List.of_mem_zip hp).1
  have hd2ninj : (d2n.map (·.2)).Nodup := by
    rw [← hd2n, List.map_snd_zip (by omega)]; exact hK
  -- the batch shape to_data produced
  generalize hbs : axAllSizes (buildAx h (fun _ => 0) d0 (-d0).toNat (d0 :: rest)) = bs at *
  have hbslen : bs.length = (-d0).toNat := by
    rw [← hbs]; simp only [axAllSizes, List.length_map]
    exact (buildAx_spec _ _ (-d0).toNat d0 (d0 :: rest) hS hbounds).1
  have hrshape : r.shape = bs ++ x.outShape := by rw [← hbs]; exact hshape (fun _ => 0)
  have hnames : axisNames d2n bs.length = namesFrom d2n d0 (-d0).toNat := by
    rw [axisNames_eq_namesFrom, hbslen, hD, Int.neg_neg]
  have hmaps : ∀ env : String → Nat, U.map (dimVal d2n env) = x.keys.map env := by
    intro env
    apply List.ext_getElem
    · simp [hklen]
    · intro i h1 h2
      have hi : i < U.length := by simpa using h1
      simp only [List.getElem_map, dimVal, hget i hi]
  have hbdim : ∀ env : String → Nat, (∀ p ∈ x.inputs, env p.1 < p.2) →
      ∀ d ∈ U, dimVal d2n env d < h d := by
    intro env henv
    exact bounded_of_maps U x.inputs _ h env (by rw [hmaps env]; simp [Tensor.keys])
      (by rw [hsz]; rfl) henv
  have haxes := fun env => rebuilt_axes d2n env h (fun _ => 0) U hnone hsome
    (-d0).toNat d0 (d0 :: rest) hS hbounds (fun d _ => hiff d)
  have hl : (axisNames d2n bs.length).zip bs
      = (namesFrom d2n d0 (-d0).toNat).zip (axAllSizes (buildAx h (fun _ => 0) d0 (-d0).toNat (d0 :: rest))) := by
    rw [hnames, hbs]
  -- packed inputs are inputs of x
  have hpacked : ∀ p ∈ packedSpec ((axisNames d2n bs.length).zip bs), p ∈ x.inputs ∧ p.2 ≠ 1 := by
    intro p hp
    refine ⟨?_, packed_ne_one _ p hp⟩
    rw [hl] at hp
    obtain ⟨d, hd, hlk, hp2⟩ := (haxes (fun _ => 0)).2.2 p hp
    obtain ⟨i, hi, rfl⟩ := List.getElem_of_mem ((hiff _).mp hd)
    have hi' : i < x.inputs.length := by omega
    rw [hget i hi] at hlk
    have e1 : x.keys[i]'(by omega) = x.inputs[i].1 := by simp [Tensor.keys]
    have e2 : h U[i] = x.inputs[i].2 := by
      have := List.getElem_of_eq hsz (i := i) (by simpa using hi)
      simpa [Tensor.sizes] using this
    have : p = x.inputs[i] := Prod.ext (by rw [← Option.some.inj hlk, e1]) (by rw [hp2, e2])
    rw [this]; exact List.getElem_mem _
  obtain ⟨f2, hf2, hf2i, hf2d, _, hsem⟩ := toFunsor_sem r bs x.outShape x.dtype d2n hd2nne hd2nneg
    hrshape (by rw [hl]; exact (haxes (fun _ => 0)).1)
    (packed_nodup_of_consistent _ _ _ (consistent_axisNames d2n hd2ninj bs))
  refine ⟨r, f2, hr, hf2, hf2d, by rw [hf2i]; exact hpacked, ?_⟩
  intro env ev henv hev
  rw [hsem env ev (fun p hp => henv p ((hpacked p (hf2i ▸ hp)).1)) hev, hl,
    (haxes env).2.1 (hbdim env henv), hval (dimVal d2n env) ev (hbdim env henv) hev, hmaps env]
  rfl


/-! ### the ORDER of the inputs after `align` on lazy terms -/

theorem keys_oset : ∀ (d : Inputs) (k : String) (v : Nat),
    (oset d k v).map (·.1) = if k ∈ d.map (·.1) then d.map (·.1) else d.map (·.1) ++ [k]
  | [], k, v => by simp [oset]
  | (k', v') :: d, k, v => by
      simp only [oset]
      by_cases hk : k' = k
      · simp [hk]
      · have ih := keys_oset d k v
        have hk' : ¬ k = k' := fun e => hk e.symm
        simp only [hk, if_false, List.map_cons, ih, List.mem_cons, hk', false_or]
        split <;> simp

/-- Key sequence of `d.update(e)`: the keys of `d`, then the new keys of `e` in order. -/
theorem keys_oupdate : ∀ (e d : Inputs), (e.map (·.1)).Nodup →
    (oupdate d e).map (·.1) = d.map (·.1) ++ (e.map (·.1)).filter (fun k => decide (k ∉ d.map (·.1)))
  | [], d, _ => by simp [oupdate]
  | (k, v) :: e, d, he => by
      simp only [List.map_cons, List.nodup_cons] at he
      have hstep : oupdate d ((k, v) :: e) = oupdate (oset d k v) e := by simp [oupdate]
      rw [hstep, keys_oupdate e _ he.2, keys_oset]
      by_cases hk : k ∈ d.map (·.1)
      · simp only [hk, if_true, List.map_cons, List.filter_cons, not_true_eq_false, decide_false,
          Bool.false_eq_true, if_false]
      · simp only [hk, if_false, List.map_cons, List.filter_cons, not_false_eq_true, decide_true,
          if_true, List.append_assoc, List.singleton_append]
        congr 2
        apply List.filter_congr
        intro a ha
        have : a ≠ k := fun e' => he.1 (e' ▸ ha)
        simp [this]

theorem nodup_keys_oset (d : Inputs) (k : String) (v : Nat) (h : (d.map (·.1)).Nodup) :
    ((oset d k v).map (·.1)).Nodup := by
  rw [keys_oset]
  split
  · exact h
  · rename_i hk
    rw [List.nodup_append]
    exact ⟨h, by simp, fun a ha b hb => by simp only [List.mem_singleton] at hb; rintro rfl; exact hk (hb ▸ ha)⟩

theorem nodup_keys_oupdate : ∀ (e d : Inputs), (d.map (·.1)).Nodup → ((oupdate d e).map (·.1)).Nodup
  | [], d, h => by simpa [oupdate] using h
  | (k, v) :: e, d, h => by
      have hstep : oupdate d ((k, v) :: e) = oupdate (oset d k v) e := by simp [oupdate]
      rw [hstep]; exact nodup_keys_oupdate e _ (nodup_keys_oset d k v h)

theorem mem_keys_oupdate : ∀ (e d : Inputs) (a : String),
    a ∈ (oupdate d e).map (·.1) ↔ a ∈ d.map (·.1) ∨ a ∈ e.map (·.1)
  | [], d, a => by simp [oupdate]
  | (k, v) :: e, d, a => by
      have hstep : oupdate d ((k, v) :: e) = oupdate (oset d k v) e := by simp [oupdate]
      rw [hstep, mem_keys_oupdate e _ a, keys_oset]
      by_cases hk : k ∈ d.map (·.1)
      · simp only [hk, if_true, List.map_cons, List.mem_cons]
        constructor
        · rintro (h | h)
          · exact Or.inl h
          · exact Or.inr (Or.inr h)
        · rintro (h | h | h)
          · exact Or.inl h
          · exact Or.inl (h ▸ hk)
          · exact Or.inr h
      · simp only [hk, if_false, List.mem_append, List.mem_singleton, List.map_cons, List.mem_cons,
          List.not_mem_nil, or_false]
        constructor
        · rintro ((h | h) | h)
          · exact Or.inl h
          · exact Or.inr (Or.inl h)
          · exact Or.inr (Or.inr h)
        · rintro (h | h | h)
          · exact Or.inl (Or.inl h)
          · exact Or.inl (Or.inr h)
          · exact Or.inr h

/-- Key sequence of the inputs `Align(arg, names)` / `Tensor.align` build: `names`, then the
    remaining keys in their old order. -/
theorem keys_alignInputs (I : Inputs) (names : List String) (hI : (I.map (·.1)).Nodup)
    (hn : names.Nodup) (hsub : ∀ n ∈ names, n ∈ I.map (·.1)) :
    (oupdate (fromPairs (names.filterMap fun n => (lookup n I).map fun s => (n, s))) I).map (·.1)
      = names ++ (I.map (·.1)).filter (fun k => decide (k ∉ names)) := by
  obtain ⟨hPk, _⟩ := namePairs_spec I names hsub
  generalize (names.filterMap fun n => (lookup n I).map fun s => (n, s)) = P at *
  have hfp : (fromPairs P).map (·.1) = names := by
    unfold fromPairs
    rw [keys_oupdate P [] (by rw [hPk]; exact hn), hPk]
    simp
  rw [keys_oupdate I _ hI, hfp]

/-- Tensor leaves have distinct input names. -/
def KeysOK : LTerm α → Prop
  | .var _ _ => True
  | .tensor t => t.keys.Nodup
  | .binary _ l r => KeysOK l ∧ KeysOK r
  | .align t _ => KeysOK t
  | .contract _ _ _ l r => KeysOK l ∧ KeysOK r

theorem keysOK_of_leavesOK : ∀ (t : LTerm α), LeavesOK t → KeysOK t
  | .var _ _, _ => trivial
  | .tensor _, h => h.2.1
  | .binary _ l r, h => ⟨keysOK_of_leavesOK l h.1, keysOK_of_leavesOK r h.2⟩
  | .align t _, h => keysOK_of_leavesOK t h
  | .contract _ _ _ l r, h => ⟨keysOK_of_leavesOK l h.1, keysOK_of_leavesOK r h.2⟩

theorem nodup_filter_keys (I : Inputs) (p : String × Nat → Bool) (h : (I.map (·.1)).Nodup) :
    ((I.filter p).map (·.1)).Nodup := h.sublist (List.Sublist.map _ List.filter_sublist)

/-- The inputs of any lazy term have distinct names. -/
theorem keys_nodup : ∀ (t : LTerm α), KeysOK t → t.keys.Nodup
  | .var n s, _ => by simp [LTerm.keys, LTerm.inputs]
  | .tensor t, h => h
  | .binary _ l r, h => nodup_keys_oupdate _ _ (keys_nodup l h.1)
  | .align t names, _ => nodup_keys_oupdate _ _ (nodup_keys_oupdate _ _ (by simp))
  | .contract _ _ rv l r, h => nodup_keys_oupdate _ _ (nodup_filter_keys _ _ (keys_nodup l h.1))

theorem sameSet_iff (a b : List String) : sameSet a b = true ↔ ∀ x, x ∈ a ↔ x ∈ b := by
  simp only [sameSet, Bool.and_eq_true, List.all_eq_true, decide_eq_true_eq]
  constructor
  · rintro ⟨h1, h2⟩ x; exact ⟨h1 x, h2 x⟩
  · intro h; exact ⟨fun x hx => (h x).mp hx, fun x hx => (h x).mpr hx⟩

/-- The key SET of an `Align` node is that of its argument. -/
theorem keyset_align (t : LTerm α) (old : List String) (a : String) :
    a ∈ (LTerm.align t old).keys ↔ a ∈ t.keys := by
  simp only [LTerm.keys, LTerm.inputs, mem_keys_oupdate, fromPairs]
  constructor
  · rintro ((h | h) | h)
    · simp at h
    · simp only [List.mem_map, List.mem_filterMap] at h
      obtain ⟨p, ⟨n, _, hn⟩, rfl⟩ := h
      cases hl : lookup n t.inputs with
      | none => simp [hl] at hn
      | some s =>
        simp only [hl, Option.map_some, Option.some.injEq] at hn
        subst hn
        exact List.mem_map_of_mem (f := (·.1)) (lookup_mem n s t.inputs hl)
    · exact h
  · exact Or.inr

/-- Keys of `Align(u, names)` when `names` are all the names of `u`: exactly `names`. -/
theorem keys_align_full (u : LTerm α) (names : List String) (hu : u.keys.Nodup) (hn : names.Nodup)
    (hs : ∀ x, x ∈ names ↔ x ∈ u.keys) : (LTerm.align u names).keys = names := by
  simp only [LTerm.keys, LTerm.inputs]
  rw [keys_alignInputs u.inputs names hu hn (fun n h => (hs n).mp h)]
  have : (u.inputs.map (·.1)).filter (fun k => decide (k ∉ names)) = [] := by
    rw [List.filter_eq_nil_iff]; intro a ha; simp [(hs a).mpr ha]
  rw [this, List.append_nil]


theorem mkAlign_props (u t' : LTerm α) (names : List String) (h : mkAlign u names = some t') :
    (KeysOK u → KeysOK t') ∧ ∀ a, a ∈ t'.keys ↔ a ∈ u.keys := by
  unfold mkAlign at h
  split at h
  · cases h
  · split at h <;> cases h
    · exact ⟨fun hk => hk, keyset_align u names⟩
    · exact ⟨fun hk => hk, fun _ => Iff.rfl⟩

theorem funsorAlign_props (u t' : LTerm α) (names : List String) (h : funsorAlign u names = some t') :
    (KeysOK u → KeysOK t') ∧ ∀ a, a ∈ t'.keys ↔ a ∈ u.keys := by
  unfold funsorAlign at h
  split at h
  · cases h; exact ⟨fun hk => hk, fun _ => Iff.rfl⟩
  · exact mkAlign_props u t' names h

theorem mkAlign_full (u t' : LTerm α) (names : List String) (hu : u.keys.Nodup) (hn : names.Nodup)
    (hs : ∀ x, x ∈ names ↔ x ∈ u.keys) (h : mkAlign u names = some t') : t'.keys = names := by
  unfold mkAlign at h
  split at h
  · cases h
  · rw [if_pos ((sameSet_iff _ _).mpr hs)] at h
    cases h
    exact keys_align_full u names hu hn hs

theorem funsorAlign_full (u t' : LTerm α) (names : List String) (hu : u.keys.Nodup) (hn : names.Nodup)
    (hs : ∀ x, x ∈ names ↔ x ∈ u.keys) (h : funsorAlign u names = some t') : t'.keys = names := by
  unfold funsorAlign at h
  split at h
  · rename_i he
    cases h
    simp only [Bool.or_eq_true, List.isEmpty_iff, decide_eq_true_eq] at he
    rcases he with he | he
    · subst he
      cases hk : u.keys with
      | nil => rfl
      | cons a as => have := (hs a).mpr (by simp [hk]); simp at this
    · exact he.symm
  · exact mkAlign_full u t' names hu hn hs h

theorem keyset_contract (rop bop : Nat) (rv : Inputs) (l r : LTerm α) (a : String) :
    a ∈ (LTerm.contract rop bop rv l r).keys ↔
      (a ∈ l.keys ∨ a ∈ r.keys) ∧ a ∉ rv.map (·.1) := by
  show a ∈ (oupdate (l.inputs.filter fun p => decide (p.1 ∉ rv.map (·.1)))
    (r.inputs.filter fun p => decide (p.1 ∉ rv.map (·.1)))).map (·.1) ↔ _
  rw [mem_keys_oupdate]
  simp only [LTerm.keys, List.mem_map, List.mem_filter, decide_eq_true_eq]
  constructor
  · rintro (⟨p, ⟨hp, hnr⟩, rfl⟩ | ⟨p, ⟨hp, hnr⟩, rfl⟩)
    · exact ⟨Or.inl ⟨p, hp, rfl⟩, hnr⟩
    · exact ⟨Or.inr ⟨p, hp, rfl⟩, hnr⟩
  · rintro ⟨⟨p, hp, rfl⟩ | ⟨p, hp, rfl⟩, hnr⟩
    · exact Or.inl ⟨p, ⟨hp, hnr⟩, rfl⟩
    · exact Or.inr ⟨p, ⟨hp, hnr⟩, rfl⟩

/-- `x.align(names)` keeps the SET of inputs (and distinct names at the leaves). -/
theorem alignT_keyset : ∀ (t : LTerm α) (names : List String) (t' : LTerm α), LeavesOK t →
    names.Nodup → t.alignT names = some t' → KeysOK t' ∧ ∀ a, a ∈ t'.keys ↔ a ∈ t.keys
  | .var n s, names, t', hok, _, h => by
      have := funsorAlign_props _ t' names h; exact ⟨this.1 trivial, this.2⟩
  | .binary op l r, names, t', hok, _, h => by
      have := funsorAlign_props _ t' names h
      exact ⟨this.1 (keysOK_of_leavesOK _ hok), this.2⟩
  | .tensor t, names, t', hok, hn, h => by
      simp only [LTerm.alignT] at h
      cases ha : t.align names with
      | error e => simp [ha] at h
      | ok t2 =>
        simp only [ha, Option.some.injEq] at h
        subst h
        have hsub : ∀ n ∈ names, n ∈ t.keys := by
          by_cases hall : (names.all fun n => decide (n ∈ t.keys)) = true
          · intro n hn'; simpa using (List.all_eq_true.mp hall) n hn'
          · simp [Tensor.align, hall] at ha
        obtain ⟨t3, h3, hk3, hm3, _, _, _⟩ := align_sem t names hok.1 hok.2.1 hn hsub
        rw [ha] at h3
        cases h3
        refine ⟨?_, ?_⟩
        · show t2.keys.Nodup
          rw [hk3, List.nodup_append]
          refine ⟨hn, hok.2.1.sublist List.filter_sublist, ?_⟩
          intro a ha' b hb
          simp only [List.mem_filter, decide_eq_true_eq] at hb
          rintro rfl; exact hb.2 ha'
        · intro a
          simp only [LTerm.keys, LTerm.inputs, List.mem_map]
          constructor
          · rintro ⟨p, hp, rfl⟩; exact ⟨p, (hm3 p).mp hp, rfl⟩
          · rintro ⟨p, hp, rfl⟩; exact ⟨p, (hm3 p).mpr hp, rfl⟩
  | .align u old, names, t', hok, hn, h => by
      simp only [LTerm.alignT] at h
      obtain ⟨hk, hs⟩ := alignT_keyset u names t' hok hn h
      exact ⟨hk, fun a => (hs a).trans (keyset_align u old a).symm⟩
  | .contract rop bop rv l r, names, t', hok, hn, h => by
      simp only [LTerm.alignT] at h
      split at h
      · cases h
      · cases hl : l.alignT (names.filter (· ∈ l.keys)) with
        | none => simp [hl] at h
        | some l' =>
          cases hr : r.alignT (names.filter (· ∈ r.keys)) with
          | none => simp [hl, hr] at h
          | some r' =>
            simp only [hl, hr] at h
            obtain ⟨hlk, hls⟩ := alignT_keyset l _ l' hok.1 (hn.sublist List.filter_sublist) hl
            obtain ⟨hrk, hrs⟩ := alignT_keyset r _ r' hok.2 (hn.sublist List.filter_sublist) hr
            have hres : ∀ a, a ∈ (LTerm.contract rop bop rv l' r').keys ↔
                a ∈ (LTerm.contract rop bop rv l r).keys := by
              intro a; rw [keyset_contract, keyset_contract, hls a, hrs a]
            split at h
            · cases h; exact ⟨⟨hlk, hrk⟩, hres⟩
            · obtain ⟨hk, hs⟩ := mkAlign_props _ t' names h
              exact ⟨hk ⟨hlk, hrk⟩, fun a => (hs a).trans (hres a)⟩

/-- **alignT_keys_full** — the order gate, theorem-backed.  When `names` lists all the inputs of a
    lazy term (any order, no repeats), `x.align(names)` returns a term whose `.inputs` are in
    exactly the order `names` — for `Tensor.align`, the `Align` wrapper, `Align.align`, and
    `Contraction.align` (which re-aligns its operands and wraps the result if needed). -/
theorem alignT_keys_full : ∀ (t : LTerm α) (names : List String) (t' : LTerm α), LeavesOK t →
    names.Nodup → (∀ x, x ∈ names ↔ x ∈ t.keys) → t.alignT names = some t' → t'.keys = names
  | .var n s, names, t', hok, hn, hs, h =>
      funsorAlign_full _ t' names (keys_nodup (LTerm.var n s) trivial) hn hs h
  | .binary op l r, names, t', hok, hn, hs, h =>
      funsorAlign_full _ t' names (keys_nodup (LTerm.binary op l r) (keysOK_of_leavesOK _ hok)) hn hs h
  | .tensor t, names, t', hok, hn, hs, h => by
      simp only [LTerm.alignT] at h
      cases ha : t.align names with
      | error e => simp [ha] at h
      | ok t2 =>
        simp only [ha, Option.some.injEq] at h
        subst h
        obtain ⟨t3, h3, hk3, _⟩ := align_sem t names hok.1 hok.2.1 hn (fun n hn' => (hs n).mp hn')
        rw [ha] at h3
        cases h3
        show t2.keys = names
        rw [hk3]
        have : t.keys.filter (fun k => decide (k ∉ names)) = [] := by
          rw [List.filter_eq_nil_iff]; intro a ha'; simp [(hs a).mpr ha']
        rw [this, List.append_nil]
  | .align u old, names, t', hok, hn, hs, h => by
      simp only [LTerm.alignT] at h
      exact alignT_keys_full u names t' hok hn
        (fun x => (hs x).trans (keyset_align u old x)) h
  | .contract rop bop rv l r, names, t', hok, hn, hs, h => by
      have h0 := h
      simp only [LTerm.alignT] at h
      split at h
      · cases h
      · cases hl : l.alignT (names.filter (· ∈ l.keys)) with
        | none => simp [hl] at h
        | some l' =>
          cases hr : r.alignT (names.filter (· ∈ r.keys)) with
          | none => simp [hl, hr] at h
          | some r' =>
            simp only [hl, hr] at h
            obtain ⟨hlk, hls⟩ := alignT_keyset l _ l' hok.1 (hn.sublist List.filter_sublist) hl
            obtain ⟨hrk, hrs⟩ := alignT_keyset r _ r' hok.2 (hn.sublist List.filter_sublist) hr
            split at h
            · rename_i he; cases h; exact he.symm
            · refine mkAlign_full _ t' names (keys_nodup (LTerm.contract rop bop rv l' r') ⟨hlk, hrk⟩) hn ?_ h
              intro x
              rw [hs x, keyset_contract, keyset_contract, hls x, hrs x]

/-- Partial `names` on a lazy (non-tensor) term: `eager_align` drops the wrapper, so the order of
    the inputs is unchanged (the value is unchanged by `alignT_denote`). -/
theorem alignT_partial_lazy (u : LTerm α) (names : List String)
    (hu : (∃ n s, u = .var n s) ∨ ∃ op l r, u = .binary op l r)
    (hsub : ∀ n ∈ names, n ∈ u.keys) (hne : names ≠ []) (hns : ¬ ∀ x, x ∈ names ↔ x ∈ u.keys) :
    u.alignT names = some u := by
  have hnk : names ≠ u.keys := fun e => hns (fun x => by rw [e])
  have hss : sameSet names u.keys = false := by
    cases hc : sameSet names u.keys with
    | false => rfl
    | true => exact absurd ((sameSet_iff _ _).mp hc) hns
  have hall : (names.all fun n => decide (n ∈ u.keys)) = true := by
    rw [List.all_eq_true]; intro n hn; exact decide_eq_true (hsub n hn)
  have hemp : names.isEmpty = false := by cases names <;> simp_all
  rcases hu with ⟨n, s, rfl⟩ | ⟨op, l, r, rfl⟩ <;>
    simp [LTerm.alignT, funsorAlign, mkAlign, hnk, hss, hall, hemp]


/-! ### re-ordering an OrderedDict of (name, domain) keeps each name's domain -/

theorem lookup_oset (k' : String) (v : Nat) (k : String) : ∀ (d : Inputs),
    lookup k (oset d k' v) = if k' = k then some v else lookup k d
  | [] => by simp [oset, lookup]
  | (a, b) :: d => by
      simp only [oset]
      by_cases ha : a = k'
      · subst ha
        simp only [if_true, lookup]
        by_cases hak : a = k <;> simp [hak]
      · simp only [ha, if_false, lookup, lookup_oset k' v k d]
        by_cases hak : a = k
        · subst hak
          have : ¬ k' = a := fun e => ha e.symm
          simp [this]
        · simp [hak]

/-- `d.update(e)`: `e`'s entries win, the others are `d`'s. -/
theorem lookup_oupdate (k : String) : ∀ (e d : Inputs), (e.map (·.1)).Nodup →
    lookup k (oupdate d e) = match lookup k e with | some v => some v | none => lookup k d
  | [], d, _ => by simp [oupdate, lookup]
  | (k', v) :: e, d, he => by
      simp only [List.map_cons, List.nodup_cons] at he
      have hstep : oupdate d ((k', v) :: e) = oupdate (oset d k' v) e := by simp [oupdate]
      rw [hstep, lookup_oupdate k e _ he.2, lookup_oset]
      simp only [lookup]
      by_cases hk : k' = k
      · subst hk
        simp [lookup_none_of_not_mem k' e he.1]
      · simp [hk]

/-- **align_keeps_domain.**  The inputs `Tensor.align` / `Align` / `Gaussian.align` build —
    `OrderedDict((n, inputs[n]) for n in names)` updated with `inputs` — map every name to the
    domain it had before: re-ordering by names never moves a domain to another name. -/
theorem align_keeps_domain (I : Inputs) (names : List String) (hI : (I.map (·.1)).Nodup)
    (hsub : ∀ n ∈ names, n ∈ I.map (·.1)) (k : String) :
    lookup k (oupdate (fromPairs (names.filterMap fun n => (lookup n I).map fun s => (n, s))) I)
      = lookup k I := by
  rw [lookup_oupdate k I _ hI]
  cases hk : lookup k I with
  | some v => rfl
  | none =>
    simp only
    apply lookup_none_of_not_mem
    intro hmem
    have := (mem_keys_oupdate _ [] k).mp hmem
    simp only [List.map_nil, List.not_mem_nil, false_or] at this
    rw [(namePairs_spec I names hsub).1] at this
    obtain ⟨v, hv⟩ := lookup_of_mem_keys k I (hsub k this)
    rw [hv] at hk; cases hk

/-- `Constant.align`'s re-ordered const inputs: `OrderedDict((n, inputs[n]) for n in const_names)`. -/
def reorderByName (I : Inputs) (names : List String) : Inputs :=
  names.filterMap fun n => (lookup n I).map fun s => (n, s)

/-- The mutant: new NAME order zipped with the OLD domain order. -/
def reorderByPosition (I : Inputs) (names : List String) : Inputs := names.zip (I.map (·.2))

/-- **reorderByName_keeps_domain.**  Looking a name up after the re-ordering gives its old domain. -/
theorem reorderByName_keeps_domain (I : Inputs) : ∀ (names : List String), names.Nodup →
    ∀ k ∈ names, lookup k (reorderByName I names) = lookup k I
  | [], _, k, hk => by simp at hk
  | n :: names, hn, k, hk => by
      simp only [List.nodup_cons] at hn
      simp only [reorderByName, List.filterMap_cons]
      by_cases hnk : n = k
      · subst hnk
        cases hl : lookup n I with
        | some v => simp [lookup]
        | none =>
          simp only [Option.map_none]
          apply lookup_none_of_not_mem
          simp only [List.mem_map, List.mem_filterMap]
          rintro ⟨p, ⟨m, hm, hp⟩, rfl⟩
          cases hlm : lookup m I with
          | none => simp [hlm] at hp
          | some s => simp only [hlm, Option.map_some, Option.some.injEq] at hp; subst hp; exact hn.1 hm
      · have hk' : k ∈ names := by
          simp only [List.mem_cons] at hk
          rcases hk with rfl | hk
          · exact absurd rfl hnk
          · exact hk
        have ih := reorderByName_keeps_domain I names hn.2 k hk'
        simp only [reorderByName] at ih
        cases hl : lookup n I with
        | some v => simp only [Option.map_some, lookup, hnk, if_false]; exact ih
        | none => simp only [Option.map_none]; exact ih

/-- **reorderByPosition_witness.**  Zipping by position gives `b` the domain `a` used to have
    (the seeded `Constant.align` defect): the order is right, the domain is wrong. -/
theorem reorderByPosition_witness :
    (reorderByPosition [("a", 2), ("b", 4), ("c", 3)] ["b", "a", "c"]).map (·.1) = ["b", "a", "c"] ∧
    lookup "b" (reorderByPosition [("a", 2), ("b", 4), ("c", 3)] ["b", "a", "c"]) = some 2 ∧
    lookup "b" (reorderByName [("a", 2), ("b", 4), ("c", 3)] ["b", "a", "c"]) = some 4 := by decide


/-! ### obligation over the generated table: every class with its own `align` is covered -/

/-- Classes whose `align` has a dedicated correspondence stream (fv/harness/c19.py CLASS_STREAMS)
    and a statement above (`align_sem`, `alignT_*`, `deltaAlign_*`, `reorderByName_keeps_domain`;
    Gaussian's data movement is C12's `align` theorem, its inputs are `align_keeps_domain`). -/
def coveredAlignClasses : List String :=
  ["Funsor", "Align", "Tensor", "Contraction", "Delta", "Constant", "Gaussian"]

/-- Fails closed: a new class defining `align` in /repo breaks this until it gets a stream. -/
theorem align_classes_covered :
    ∀ c ∈ FV.Gen.C19Align.alignClasses, c ∈ coveredAlignClasses := by decide

/-! ### callers that re-align operands by name (generated table) -/

/-- Callers with a dedicated stream in fv/harness/c19.py (`COVERED_CALLERS`). -/
def coveredCallers : List String :=
  ["op_factory.eager_tensor_made_op", "gaussian.align_gaussian"]

/-- Callers deliberately left to another property or out of reach in this sandbox, each with the
    reason: distribution.* need a backend distribution library (torch/pyro, jax/numpyro) that is
    not installed here; the Gaussian substitution / concatenation paths are C12/C13's; the argmax
    approximation is C14's; `tuple_to_funsor` only maps `to_funsor` over the components. -/
def delegatedCallers : List String :=
  ["approximations.compute_argmax_tensor",
   "distribution.Distribution._get_raw_dist", "distribution.Distribution._sample",
   "distribution.Distribution.eager_log_prob", "distribution.Distribution.entropy",
   "distribution.Distribution.enumerate_support", "distribution.Distribution.mean",
   "distribution.Distribution.variance", "distribution.backenddist_to_funsor",
   "distribution.distribution_to_data", "distribution.eager_delta_tensor",
   "distribution.eager_multinomial", "distribution.expandeddist_to_funsor",
   "distribution.gaussian_to_data", "distribution.gaussianmixture_to_data",
   "distribution.indep_to_data", "distribution.indepdist_to_funsor",
   "distribution.maskeddist_to_funsor", "distribution.transformeddist_to_funsor",
   "gaussian.Gaussian._eager_subs_affine", "gaussian.Gaussian._eager_subs_real",
   "joint.eager_cat_homogeneous", "terms.tuple_to_funsor"]

/-- Fails closed: a new function that calls `to_data(…, name_to_dim)`, `to_funsor(…, dim_to_name)`
    or `align_tensor(s)` outside tensor.py breaks this until it is given a stream or delegated. -/
theorem realign_callers_covered :
    ∀ c ∈ FV.Gen.C19Callers.realignCallers, c ∈ coveredCallers ∨ c ∈ delegatedCallers := by decide

/-! ### make_op: skipping `to_data` for an operand whose key order differs is unsound -/

def exMX : Tensor Int := ⟨[("a", 2), ("b", 2)], ⟨[2, 2], fun idx => (ravel [2, 2] idx : Int)⟩, none⟩
def exMY : Tensor Int := ⟨[("b", 2), ("a", 2)], ⟨[2, 2], fun idx => (ravel [2, 2] idx : Int) + 10⟩, none⟩

/-- The rule proper: `z(a,b) = x(a,b) - 2*y(b,a)` at every named point. -/
theorem madeOp_example :
    (match madeOp2 (fun p q => p - 2 * q) exMX exMY with
      | .ok t => (t.inputs, t.data.toFlat) | .error _ => ([], []))
      = ([("a", 2), ("b", 2)], [0 - 2 * 10, 1 - 2 * 12, 2 - 2 * 11, 3 - 2 * 13]) := by decide

/-- **madeOp_skip_toData_witness.**  `y` occupies exactly the rightmost dims {-1, -2} — the
    shortcut's test — but lists them in the other order; passing `y.data` through un-transposed
    pairs `x(a,b)` with `y(a,b)`'s *storage*, i.e. with `y` at the point (b↦a, a↦b): wrong values
    under the right names. -/
theorem madeOp_skip_toData_witness :
    (match madeOp2 (fun p q => p - 2 * q) exMX exMY false true with
      | .ok t => (t.inputs, t.data.toFlat) | .error _ => ([], []))
      = ([("a", 2), ("b", 2)], [0 - 2 * 10, 1 - 2 * 11, 2 - 2 * 12, 3 - 2 * 13]) ∧
    (match madeOp2 (fun p q => p - 2 * q) exMX exMY false true with
      | .ok t => t.data.toFlat | .error _ => [])
      ≠ (match madeOp2 (fun p q => p - 2 * q) exMX exMY with
      | .ok t => t.data.toFlat | .error _ => []) := by decide


/-! ### make_op: the joint name_to_dim and what each raw operand is

  Full statement (`madeOp_sem`, proved further below for the binary case with non-empty inputs;
  also tied by exact correspondence in the `makeop` stream and by `madeOp_example`):

    TensorOK sz x → TensorOK sz y →
    ∃ t, madeOp2 f x y = .ok t ∧ ∀ env, (∀ n, env n < sz n) →
      t.atEnv env [] = f (x.atEnv env []) (y.atEnv env [])

  Proved below (`…_partial`): the rule's `name_to_dim` is injective with dims -1, -2, …, it names
  every input of every operand, and therefore each raw operand `to_data(arg, name_to_dim)` is —
  at EVERY index — the operand's value at the corresponding named point (`toData_sem_idx`).  The
  result side is `toFunsor_sem`.  The glue — numpy's right-aligned broadcasting of the two raw
  arrays reads both at the same named point — is `operand_padded` + `clip_operand` below. -/

/-- Invariant of the `setdefault` loop: dims are -1, -2, … in insertion order, names distinct. -/
def DimsInv (acc : List (String × Int)) : Prop :=
  acc.map (·.2) = (List.range acc.length).map (fun (i : Nat) => -1 - (i : Int)) ∧ (acc.map (·.1)).Nodup

theorem lookup_none_iff_not_mem {β : Type} (k : String) (d : List (String × β)) :
    lookup k d = none ↔ k ∉ d.map (·.1) := by
  constructor
  · intro h hm
    obtain ⟨v, hv⟩ := lookup_of_mem_keys k d hm
    rw [h] at hv; cases hv
  · exact lookup_none_of_not_mem k d

theorem setDefaultDim_spec (acc : List (String × Int)) (k : String) (h : DimsInv acc) :
    DimsInv (setDefaultDim acc k) ∧ (∀ a, a ∈ (setDefaultDim acc k).map (·.1) ↔ a ∈ acc.map (·.1) ∨ a = k) := by
  unfold setDefaultDim
  cases hl : lookup k acc with
  | some v =>
    refine ⟨h, fun a => ⟨Or.inl, ?_⟩⟩
    rintro (ha | rfl)
    · exact ha
    · exact List.mem_map_of_mem (f := (·.1)) (lookup_mem _ v acc hl)
  | none =>
    have hk : k ∉ acc.map (·.1) := (lookup_none_iff_not_mem k acc).mp hl
    refine ⟨⟨?_, ?_⟩, ?_⟩
    · simp [List.range_succ, h.1]
    · rw [List.map_append, List.nodup_append]
      refine ⟨h.2, by simp, ?_⟩
      intro a ha b hb
      simp only [List.map_cons, List.map_nil, List.mem_singleton] at hb
      rintro rfl; exact hk (hb ▸ ha)
    · intro a; simp

theorem foldl_setDefaultDim_spec : ∀ (ks : List String) (acc : List (String × Int)), DimsInv acc →
    DimsInv (ks.foldl setDefaultDim acc) ∧
    (∀ a, a ∈ (ks.foldl setDefaultDim acc).map (·.1) ↔ a ∈ acc.map (·.1) ∨ a ∈ ks)
  | [], acc, h => ⟨h, fun a => by simp⟩
  | k :: ks, acc, h => by
      obtain ⟨h1, h2⟩ := setDefaultDim_spec acc k h
      obtain ⟨h3, h4⟩ := foldl_setDefaultDim_spec ks _ h1
      refine ⟨h3, fun a => ?_⟩
      rw [List.foldl_cons, h4 a, h2 a]
      simp only [List.mem_cons]
      constructor
      · rintro ((h | h) | h)
        · exact Or.inl h
        · exact Or.inr (Or.inl h)
        · exact Or.inr (Or.inr h)
      · rintro (h | h | h)
        · exact Or.inl (Or.inl h)
        · exact Or.inl (Or.inr h)
        · exact Or.inr h

theorem madeDims_spec : ∀ (args : List (Tensor α)) (acc : List (String × Int)), DimsInv acc →
    DimsInv (args.foldl (fun acc t => t.keys.reverse.foldl setDefaultDim acc) acc) ∧
    (∀ t ∈ args, ∀ k ∈ t.keys,
      k ∈ (args.foldl (fun acc t => t.keys.reverse.foldl setDefaultDim acc) acc).map (·.1)) ∧
    (∀ a ∈ acc.map (·.1),
      a ∈ (args.foldl (fun acc t => t.keys.reverse.foldl setDefaultDim acc) acc).map (·.1))
  | [], acc, h => ⟨h, by simp, fun _ h => h⟩
  | t :: args, acc, h => by
      obtain ⟨h1, h2⟩ := foldl_setDefaultDim_spec t.keys.reverse acc h
      obtain ⟨h3, h4, h5⟩ := madeDims_spec args _ h1
      refine ⟨h3, ?_, fun a ha => h5 a ((h2 a).mpr (Or.inl ha))⟩
      intro u hu k hk
      simp only [List.mem_cons] at hu
      rcases hu with rfl | hu
      · exact h5 k ((h2 k).mpr (Or.inr (by simpa using hk)))
      · exact h4 u hu k hk

/-- The joint `name_to_dim` of the made-op rule: dims are exactly -1, …, -n (hence pairwise distinct
    and negative), names are distinct, and every input of every operand is named. -/
theorem madeDims_ok (args : List (Tensor α)) :
    ((madeDims args).map (·.2)).Nodup ∧ (∀ p ∈ madeDims args, p.2 < 0) ∧
    ((madeDims args).map (·.1)).Nodup ∧ ∀ t ∈ args, ∀ k ∈ t.keys, k ∈ (madeDims args).map (·.1) := by
  obtain ⟨⟨hv, hn⟩, hk, _⟩ := madeDims_spec args [] ⟨rfl, by simp⟩
  refine ⟨?_, ?_, hn, hk⟩
  · show ((madeDims args).map (·.2)).Nodup
    unfold madeDims; rw [hv, List.Nodup, List.pairwise_map]
    exact (List.nodup_range).imp (fun h e => h (by omega))
  · intro p hp
    have : p.2 ∈ (madeDims args).map (·.2) := List.mem_map_of_mem hp
    unfold madeDims at this; rw [hv] at this
    simp only [List.mem_map, List.mem_range] at this
    obtain ⟨i, _, hi⟩ := this
    omega

theorem lookup_of_mem_nodup' : ∀ (d : List (String × Int)) (k : String) (v : Int),
    (d.map (·.1)).Nodup → (k, v) ∈ d → lookup k d = some v
  | [], _, _, _, h => by simp at h
  | (k', v') :: d, k, v, hn, h => by
      simp only [List.map_cons, List.nodup_cons] at hn
      simp only [lookup]
      simp only [List.mem_cons, Prod.mk.injEq] at h
      by_cases hk : k' = k
      · simp only [hk, if_true]
        rcases h with h | h
        · rw [h.2]
        · exact absurd (List.mem_map_of_mem (f := (·.1)) h) (hk ▸ hn.1)
      · simp only [hk, if_false]
        rcases h with h | h
        · exact absurd h.1.symm hk
        · exact lookup_of_mem_nodup' d k v hn.2 h

theorem lookup_inj_of_values_nodup (d : List (String × Int)) (hv : (d.map (·.2)).Nodup) (hk : (d.map (·.1)).Nodup)
    (k1 k2 : String) (v : Int) (h1 : lookup k1 d = some v) (h2 : lookup k2 d = some v) : k1 = k2 := by
  have m1 := lookup_mem k1 v d h1
  have m2 := lookup_mem k2 v d h2
  clear h1 h2
  induction d with
  | nil => simp at m1
  | cons p d ih =>
    simp only [List.map_cons, List.nodup_cons] at hv hk
    simp only [List.mem_cons] at m1 m2
    rcases m1 with e1 | m1 <;> rcases m2 with e2 | m2
    · rw [← e2] at e1; exact (Prod.mk.inj e1).1
    · exact absurd (List.mem_map_of_mem (f := (·.2)) m2) (by have := hv.1; rw [← e1] at this; exact this)
    · exact absurd (List.mem_map_of_mem (f := (·.2)) m1) (by have := hv.1; rw [← e2] at this; exact this)
    · exact ih hv.2 hk.2 m1 m2


theorem mapM_lookup_nodup (d : List (String × Int)) (hv : (d.map (·.2)).Nodup) (hk : (d.map (·.1)).Nodup) :
    ∀ (K : List String), K.Nodup → (∀ k ∈ K, k ∈ d.map (·.1)) →
    ∃ U, K.mapM (fun k => lookup k d) = some U ∧ U.Nodup ∧ ∀ u ∈ U, ∃ k ∈ K, lookup k d = some u
  | [], _, _ => ⟨[], rfl, by simp, by simp⟩
  | k :: K, hn, hs => by
      simp only [List.nodup_cons] at hn
      obtain ⟨v, hv'⟩ := lookup_of_mem_keys k d (hs k (by simp))
      obtain ⟨U, hU, hUn, hUm⟩ := mapM_lookup_nodup d hv hk K hn.2 (fun x hx => hs x (by simp [hx]))
      refine ⟨v :: U, by rw [List.mapM_cons, hv', hU]; rfl, ?_, ?_⟩
      · rw [List.nodup_cons]
        refine ⟨?_, hUn⟩
        intro hmem
        obtain ⟨k', hk', hl'⟩ := hUm v hmem
        have := lookup_inj_of_values_nodup d hv hk k k' v hv' hl'
        exact hn.1 (this ▸ hk')
      · intro u hu
        simp only [List.mem_cons] at hu
        rcases hu with rfl | hu
        · exact ⟨k, by simp, hv'⟩
        · obtain ⟨k', hk', hl'⟩ := hUm u hu
          exact ⟨k', by simp [hk'], hl'⟩

/-- **madeOp_operand_sem_partial.**  In `eager_tensor_made_op(op, *args)`, the raw array handed to
    the op for a (well-formed, distinctly named) operand `x` is `to_data(x, name_to_dim)` with the
    rule's joint `name_to_dim`; it exists, and at EVERY in-bounds index it holds the value of `x`
    at the named point that index denotes — whatever the order in which `x` lists its inputs and
    whatever the other operands are.  (This is exactly what the `arg.data` shortcut violates:
    `madeOp_skip_toData_witness`.) -/
theorem madeOp_operand_sem_partial (args : List (Tensor α)) (x : Tensor α) (hx : x ∈ args)
    (hwf : x.WF) (hK : x.keys.Nodup) (hin : x.inputs ≠ []) :
    ∃ U r d0 rest bshape, x.keys.mapM (fun k => lookup k (madeDims args)) = some U ∧ U.Nodup ∧
      sortInts U = d0 :: rest ∧ toData x (some (madeDims args)) = .ok r ∧
      r.shape = bshape ++ x.outShape ∧ bshape.length = (-d0).toNat ∧
      ∀ bidx ev, inb bshape bidx = true → inb x.outShape ev = true →
        r.get (bidx ++ ev) = x.data.get (U.map (fun d => bidx.getD (d - d0).toNat 0) ++ ev) := by
  obtain ⟨hv, hneg, hkn, hall⟩ := madeDims_ok args
  obtain ⟨U, hU, hUn, _⟩ := mapM_lookup_nodup (madeDims args) hv hkn x.keys hK (hall x hx)
  obtain ⟨r, d0, rest, bshape, h1, h2, h3, h4, h5⟩ :=
    toData_sem_idx x (madeDims args) hwf hin hneg U hU hUn
  exact ⟨U, r, d0, rest, bshape, hU, hUn, h1, h2, h3, h4, h5⟩


/-! ### make_op: the glue — everything as maps over the axis range -/

theorem bidx_eq_map (env : String → Nat) : ∀ (l : List (Option String × Nat)),
    bidx env l = l.map (fun p => match p with
      | (some n, s) => if s ≠ 1 then env n else 0
      | (none, _) => 0)
  | [] => rfl
  | (none, s) :: l => by simp [bidx, bidx_eq_map env l]
  | (some n, s) :: l => by simp [bidx, bidx_eq_map env l]

theorem clip_map {β : Type} (σ ι : β → Nat) : ∀ (L : List β),
    clip (L.map σ) (L.map ι) = L.map (fun j => if σ j = 1 then 0 else ι j)
  | [] => rfl
  | a :: L => by simp [clip, clip_map σ ι L]

theorem bshape2_map {β : Type} (σ1 σ2 : β → Nat) : ∀ (L : List β),
    (∀ j ∈ L, σ1 j = σ2 j ∨ σ1 j = 1 ∨ σ2 j = 1) →
    bshape2 (L.map σ1) (L.map σ2) = some (L.map (fun j => if σ1 j = 1 then σ2 j else σ1 j))
  | [], _ => rfl
  | a :: L, h => by
      have ih := bshape2_map σ1 σ2 L (fun j hj => h j (by simp [hj]))
      simp only [List.map_cons, bshape2, ih]
      rcases h a (by simp) with h1 | h1 | h1
      · by_cases h2 : σ1 a = 1
        · simp [h1, h2] at *
        · simp [h1, h2]
      · simp [h1]
      · by_cases h2 : σ1 a = 1
        · simp [h1, h2]
        · simp [h1, h2]

theorem zip_map_same {β γ δ : Type} (f : β → γ) (g : β → δ) : ∀ (L : List β),
    (L.map f).zip (L.map g) = L.map (fun j => (f j, g j))
  | [] => rfl
  | a :: L => by simp [zip_map_same f g L]

theorem packed_map_mem {β : Type} (ψ : β → Option String × Nat) : ∀ (L : List β),
    ∀ p ∈ packedSpec (L.map ψ), ∃ j ∈ L, ψ j = (some p.1, p.2) ∧ p.2 ≠ 1
  | [], p, h => by simp [packedSpec] at h
  | a :: L, p, h => by
      simp only [List.map_cons] at h
      cases hψ : ψ a with
      | mk nm s =>
        rw [hψ] at h
        cases nm with
        | none =>
          obtain ⟨j, hj, hp⟩ := packed_map_mem ψ L p (by simpa [packedSpec] using h)
          exact ⟨j, by simp [hj], hp⟩
        | some n =>
          by_cases hs : s = 1
          · obtain ⟨j, hj, hp⟩ := packed_map_mem ψ L p (by simpa [packedSpec, hs] using h)
            exact ⟨j, by simp [hj], hp⟩
          · simp only [packedSpec, ne_eq, hs, not_false_eq_true, if_true, List.mem_cons] at h
            rcases h with rfl | h
            · exact ⟨a, by simp, hψ, hs⟩
            · obtain ⟨j, hj, hp⟩ := packed_map_mem ψ L p h
              exact ⟨j, by simp [hj], hp⟩

theorem ravel_ones_prefix (s J : List Nat) : ∀ (k : Nat),
    ravel (List.replicate k 1 ++ s) (List.replicate k 0 ++ J) = ravel s J ∧
    prod (List.replicate k 1 ++ s) = prod s
  | 0 => by simp
  | k + 1 => by
      obtain ⟨h1, h2⟩ := ravel_ones_prefix s J k
      simp only [List.replicate_succ, List.cons_append, ravel, prod, Nat.zero_mul, Nat.zero_add,
        Nat.one_mul]
      exact ⟨h1, h2⟩

/-- `buildAx` as a map over the axis range. -/
theorem buildAx_eq_map (h g : Int → Nat) : ∀ (n : Nat) (off : Int) (S : List Int),
    S.Pairwise (· < ·) → (∀ d ∈ S, off ≤ d ∧ d < off + n) →
    buildAx h g off n S = (List.range n).map (fun (j : Nat) =>
      if off + (j : Int) ∈ S then (true, h (off + j), g (off + j)) else (false, 1, 0))
  | 0, _, _, _, _ => rfl
  | n + 1, off, [], _, _ => by
      have ih := buildAx_eq_map h g n (off + 1) [] (by simp) (by simp)
      simp only [buildAx, ih, List.range_succ_eq_map, List.map_cons, List.map_map]
      simp
  | n + 1, off, d :: S, hs, hb => by
      simp only [List.pairwise_cons] at hs
      have hd0 := hb d (by simp)
      rw [List.range_succ_eq_map]
      by_cases hd : d = off
      · have hb' : ∀ x ∈ S, off + 1 ≤ x ∧ x < off + 1 + n := by
          intro x hx
          have h1 := hs.1 x hx
          have h2 := hb x (by simp [hx])
          push_cast at h2; omega
        have ih := buildAx_eq_map h g n (off + 1) S hs.2 hb'
        simp only [buildAx, hd, if_true, ih, List.map_cons, List.map_map]
        congr 1
        · simp
        · apply List.map_congr_left
          intro j _
          have e : off + 1 + (j : Int) = off + ((j + 1 : Nat) : Int) := by push_cast; omega
          have hne : off + ((j + 1 : Nat) : Int) ≠ off := by push_cast; omega
          simp only [Function.comp, e, List.mem_cons, hne, false_or]
      · have hb' : ∀ x ∈ d :: S, off + 1 ≤ x ∧ x < off + 1 + n := by
          intro x hx
          simp only [List.mem_cons] at hx
          rcases hx with rfl | hx
          · push_cast at hd0; omega
          · have h1 := hs.1 x hx
            have h2 := hb x (by simp [hx])
            push_cast at h2; omega
        have ih := buildAx_eq_map h g n (off + 1) (d :: S)
          (by simp only [List.pairwise_cons]; exact hs) hb'
        have hoff : off ∉ d :: S := fun hm => by have := hb' off hm; omega
        simp only [buildAx, hd, if_false, ih, List.map_cons, List.map_map]
        congr 1
        · simp [hoff]
        · apply List.map_congr_left
          intro j _
          have e : off + 1 + (j : Int) = off + ((j + 1 : Nat) : Int) := by push_cast; omega
          simp only [Function.comp, e]


/-- Size and index of axis `j` of an `n`-axis array, the axis sitting on dim `j - n`. -/
def sigmaAx (S : List Int) (h : Int → Nat) (n j : Nat) : Nat :=
  if (j : Int) - (n : Int) ∈ S then h ((j : Int) - n) else 1
def idxAx (S : List Int) (g : Int → Nat) (n j : Nat) : Nat :=
  if (j : Int) - (n : Int) ∈ S then g ((j : Int) - n) else 0

theorem inb_axAll : ∀ (l : List Ax), (∀ q ∈ l, q.1 = true → q.2.2 < q.2.1) →
    (∀ q ∈ l, q.1 = false → q.2.1 = 1) → inb (axAllSizes l) (axAllIdx l) = true
  | [], _, _ => rfl
  | (true, s, i) :: l, hk, hd => by
      have ih := inb_axAll l (fun q hq => hk q (by simp [hq])) (fun q hq => hd q (by simp [hq]))
      have := hk (true, s, i) (by simp) rfl
      simp only [axAllSizes, axAllIdx, List.map_cons, inb, if_true, Bool.and_eq_true,
        decide_eq_true_eq] at ih ⊢
      exact ⟨this, ih⟩
  | (false, s, i) :: l, hk, hd => by
      have ih := inb_axAll l (fun q hq => hk q (by simp [hq])) (fun q hq => hd q (by simp [hq]))
      have := hd (false, s, i) (by simp) rfl
      simp only [axAllSizes, axAllIdx, List.map_cons, inb, Bool.false_eq_true, if_false,
        Bool.and_eq_true, decide_eq_true_eq] at ih ⊢
      simp only at this
      exact ⟨by omega, ih⟩

/-- Padding a list indexed by the last `ra` axes up to `n = k + ra` axes. -/
theorem pad_range_map (S : List Int) (φ : Int → Nat) (dflt : Nat) (d0 : Int) (ra k : Nat)
    (hd0 : d0 = -(ra : Int)) (hlow : ∀ d ∈ S, d0 ≤ d) :
    List.replicate k dflt ++ (List.range ra).map (fun (j : Nat) => if d0 + (j : Int) ∈ S then φ (d0 + j) else dflt)
      = (List.range (k + ra)).map (fun (j : Nat) =>
          if (j : Int) - ((k + ra : Nat) : Int) ∈ S then φ ((j : Int) - ((k + ra : Nat) : Int)) else dflt) := by
  rw [List.range_add, List.map_append, List.map_map]
  congr 1
  · symm
    rw [List.eq_replicate_iff]
    refine ⟨by simp, ?_⟩
    intro b hb
    simp only [List.mem_map, List.mem_range] at hb
    obtain ⟨j, hj, rfl⟩ := hb
    have : (j : Int) - ((k + ra : Nat) : Int) ∉ S := fun hm => by
      have := hlow _ hm; push_cast at this; omega
    rw [if_neg this]
  · apply List.map_congr_left
    intro j _
    have e : ((k + j : Nat) : Int) - ((k + ra : Nat) : Int) = d0 + (j : Int) := by push_cast; omega
    simp only [Function.comp, e]

/-- **operand_padded.**  The raw operand the made-op rule passes to the function, after numpy's
    left-padding to `n` axes: its axis sizes, and its entry at the index that carries `g d` on the
    axis of each requested dim `d`. -/
theorem operand_padded (x : Tensor α) (n2d : List (String × Int)) (hwf : x.WF)
    (hin : x.inputs ≠ []) (hneg : ∀ p ∈ n2d, p.2 < 0) (hout : x.outShape = [])
    (U : List Int) (hU : x.keys.mapM (fun k => lookup k n2d) = some U) (hinj : U.Nodup) :
    ∃ a d0 rest, sortInts U = d0 :: rest ∧ toData x (some n2d) = .ok a ∧
      a.shape.length = (-d0).toNat ∧ ∀ n, (-d0).toNat ≤ n →
      ∃ a', padLeft a n = .ok a' ∧
        a'.shape = (List.range n).map (sigmaAx (sortInts U) (sizeAt U x.sizes) n) ∧
        ∀ g : Int → Nat, (∀ d ∈ U, g d < sizeAt U x.sizes d) →
          a'.get ((List.range n).map (idxAx (sortInts U) g n)) = x.data.get (U.map g) := by
  obtain ⟨r, d0, rest, hSd, hr, hshape, hval⟩ := toData_sem x n2d hwf hin hneg U hU hinj
  have hUneg : ∀ d ∈ U, d < 0 := by
    intro d hd
    obtain ⟨k, _, hk⟩ := mapM_some_mem _ _ _ hU d hd
    exact hneg (k, d) (lookup_mem k d n2d hk)
  have hS := sortInts_sorted U hinj
  have hiff : ∀ a, a ∈ sortInts U ↔ a ∈ U := fun a => mem_sortInts a U
  generalize hh : sizeAt U x.sizes = h at *
  rw [hSd] at hS hiff hshape hval ⊢
  have hd0neg : d0 < 0 := hUneg d0 ((hiff d0).mp (by simp))
  have hD : ((-d0).toNat : Int) = -d0 := by omega
  have hbounds : ∀ d ∈ d0 :: rest, d0 ≤ d ∧ d < d0 + ((-d0).toNat : Nat) := by
    intro d hd
    have hdn := hUneg d ((hiff d).mp hd)
    simp only [List.pairwise_cons] at hS
    simp only [List.mem_cons] at hd
    rcases hd with rfl | hd
    · omega
    · have := hS.1 d hd; omega
  have hB := fun g => buildAx_eq_map h g (-d0).toNat d0 (d0 :: rest) hS hbounds
  have hspec := fun g => buildAx_spec h g (-d0).toNat d0 (d0 :: rest) hS hbounds
  have hrs : ∀ g, r.shape = axAllSizes (buildAx h g d0 (-d0).toNat (d0 :: rest)) := by
    intro g; have := hshape g; rwa [hout, List.append_nil] at this
  have hsizes : r.shape = (List.range (-d0).toNat).map (fun (j : Nat) =>
      if d0 + (j : Int) ∈ d0 :: rest then h (d0 + j) else 1) := by
    rw [hrs (fun _ => 0), hB, axAllSizes, List.map_map]
    apply List.map_congr_left
    intro j _
    simp only [Function.comp]; split <;> rfl
  refine ⟨r, d0, rest, rfl, hr, by rw [hsizes]; simp, ?_⟩
  intro n hn
  obtain ⟨k, rfl⟩ : ∃ k, n = k + (-d0).toNat := ⟨n - (-d0).toNat, by omega⟩
  have hk : k + (-d0).toNat - r.shape.length = k := by rw [hsizes]; simp
  have hlow : ∀ d ∈ d0 :: rest, d0 ≤ d := fun d hd => (hbounds d hd).1
  have hd0' : d0 = -(((-d0).toNat : Nat) : Int) := by omega
  unfold padLeft
  rw [hk]
  have hprod := (ravel_ones_prefix r.shape [] k).2
  simp only [reshape, hprod, if_true]
  refine ⟨_, rfl, ?_, ?_⟩
  · show List.replicate k 1 ++ r.shape = _
    rw [hsizes]
    exact pad_range_map (d0 :: rest) h 1 d0 (-d0).toNat k hd0' hlow
  · intro g hg
    have hidx : (List.range (k + (-d0).toNat)).map (idxAx (d0 :: rest) g (k + (-d0).toNat))
        = List.replicate k 0 ++ axAllIdx (buildAx h g d0 (-d0).toNat (d0 :: rest)) := by
      rw [hB g, axAllIdx, List.map_map]
      have := pad_range_map (d0 :: rest) g 0 d0 (-d0).toNat k hd0' hlow
      unfold idxAx
      rw [← this]
      congr 1
      apply List.map_congr_left
      intro j _
      simp only [Function.comp]; split <;> simp
    rw [hidx]
    show r.get (unravel r.shape (ravel (List.replicate k 1 ++ r.shape) _)) = _
    rw [(ravel_ones_prefix r.shape _ k).1, hrs g]
    obtain ⟨_, _, hks, hki, hdrop⟩ := hspec g
    have hinb : inb (axAllSizes (buildAx h g d0 (-d0).toNat (d0 :: rest)))
        (axAllIdx (buildAx h g d0 (-d0).toNat (d0 :: rest))) = true := by
      apply inb_axAll _ _ hdrop
      intro q hq hq1
      rw [hB g] at hq
      simp only [List.mem_map, List.mem_range] at hq
      obtain ⟨j, _, rfl⟩ := hq
      split at hq1
      · rename_i hm
        simp only [hm, if_true]
        exact hg _ ((hiff _).mp hm)
      · simp at hq1
    rw [unravel_ravel _ _ hinb]
    have := hval g [] hg (by rw [hout]; rfl)
    simpa using this


theorem mapM_some_getElem {β γ : Type} (f : β → Option γ) : ∀ (l : List β) (r : List γ),
    l.mapM f = some r → ∀ i (hi : i < l.length) (hr : i < r.length), f l[i] = some r[i]
  | [], r, h, i, hi, _ => by simp at hi
  | a :: l, r, h, i, hi, hr => by
      rw [List.mapM_cons] at h
      cases hf : f a with
      | none => simp [hf] at h
      | some b =>
        cases hm : l.mapM f with
        | none => simp [hf, hm] at h
        | some r' =>
          simp only [hf, hm] at h
          have : r = b :: r' := by cases h; rfl
          subst this
          cases i with
          | zero => simpa using hf
          | succ i =>
            simp only [List.getElem_cons_succ]
            exact mapM_some_getElem f l r' hm i (by simpa using hi) (by simpa using hr)

theorem lookup_swap' (k : String) (v : Int) : ∀ (d : List (String × Int)),
    (d.map (·.2)).Nodup → lookup k d = some v → lookup v (d.map fun p => (p.2, p.1)) = some k
  | [], _, h => by simp [lookup] at h
  | (k', v') :: r, hn, h => by
      simp only [List.map_cons, List.nodup_cons] at hn
      simp only [lookup] at h
      simp only [List.map_cons, lookup]
      by_cases hk : k' = k
      · simp only [hk, if_true, Option.some.injEq] at h; simp [hk, h]
      · simp only [hk, if_false] at h
        have hmem : v ∈ r.map (·.2) := List.mem_map_of_mem (f := (·.2)) (lookup_mem k v r h)
        have hv : v' ≠ v := fun e => hn.1 (e ▸ hmem)
        simp only [hv, if_false]
        exact lookup_swap' k v r hn.2 h

/-- What the joint `dim_to_name` knows about the dims of one operand. -/
theorem operand_dims (sz : String → Nat) (x : Tensor α) (n2d : List (String × Int))
    (hv : (n2d.map (·.2)).Nodup) (hs : SizedI sz x.inputs) (U : List Int)
    (hU : x.keys.mapM (fun k => lookup k n2d) = some U) (hinj : U.Nodup) (env : String → Nat) :
    U.map (dimVal (n2d.map fun p => (p.2, p.1)) env) = x.keys.map env ∧
    ∀ d ∈ U, ∃ k, lookup d (n2d.map fun p => (p.2, p.1)) = some k ∧ sizeAt U x.sizes d = sz k ∧
      dimVal (n2d.map fun p => (p.2, p.1)) env d = env k := by
  have hlen : U.length = x.keys.length := mapM_some_length _ _ _ hU
  have hget : ∀ i (hi : i < U.length), lookup U[i] (n2d.map fun p => (p.2, p.1))
      = some (x.keys[i]'(by omega)) := by
    intro i hi
    exact lookup_swap' _ _ n2d hv (mapM_some_getElem _ _ _ hU i (by omega) hi)
  have hsz : U.map (sizeAt U x.sizes) = x.sizes :=
    map_sizeAt U x.sizes hinj (by simp [Tensor.sizes, Tensor.keys] at hlen ⊢; exact hlen)
  refine ⟨?_, ?_⟩
  · apply List.ext_getElem
    · simp [hlen]
    · intro i h1 h2
      have hi : i < U.length := by simpa using h1
      simp only [List.getElem_map, dimVal, hget i hi]
  · intro d hd
    obtain ⟨i, hi, rfl⟩ := List.getElem_of_mem hd
    have hi' : i < x.inputs.length := by simp [Tensor.keys] at hlen; omega
    refine ⟨x.keys[i]'(by omega), hget i hi, ?_, by simp only [dimVal, hget i hi]⟩
    have e2 : sizeAt U x.sizes U[i] = x.inputs[i].2 := by
      have := List.getElem_of_eq hsz (i := i) (by simpa using hi)
      simpa [Tensor.sizes] using this
    have e1 : x.keys[i]'(by omega) = x.inputs[i].1 := by simp [Tensor.keys]
    rw [e2, e1]; exact hs _ (List.getElem_mem _)


/-- Reading one padded operand at the result's index: numpy's broadcasting (`clip`) of the index
    `to_funsor` reads lands on the operand's own named point. -/
theorem clip_operand (sz : String → Nat) (d2n : List (Int × String)) (env : String → Nat)
    (henv : ∀ n, env n < sz n) (S : List Int) (h : Int → Nat) (n : Nat) (σ : Nat → Nat)
    (hσ : ∀ j, sigmaAx S h n j ≠ 1 → σ j = sigmaAx S h n j)
    (hL : ∀ d ∈ S, ∃ k, lookup d d2n = some k ∧ h d = sz k ∧ dimVal d2n env d = env k) :
    clip ((List.range n).map (sigmaAx S h n))
      ((List.range n).map (fun (j : Nat) => match (lookup ((j : Int) - n) d2n, σ j) with
        | (some nm, s) => if s ≠ 1 then env nm else 0
        | (none, _) => 0))
      = (List.range n).map (idxAx S (dimVal d2n env) n) := by
  rw [clip_map]
  apply List.map_congr_left
  intro j _
  by_cases hm : (j : Int) - (n : Int) ∈ S
  · obtain ⟨k, hk, hhk, hgk⟩ := hL _ hm
    have hs : sigmaAx S h n j = sz k := by simp [sigmaAx, hm, hhk]
    simp only [idxAx, hm, if_true, hgk, hk]
    by_cases h1 : sigmaAx S h n j = 1
    · have := henv k; rw [← hs, h1] at this
      simp only [h1, if_true]; omega
    · simp only [h1, if_false, hσ j h1, ne_eq, not_false_eq_true, if_true]
  · simp [sigmaAx, idxAx, hm]

/-- **madeOp_sem.**  The eager rule behind every `funsor.make_op` binary op — `to_data` each operand
    with the joint `name_to_dim`, apply the raw elementwise function under numpy broadcasting,
    `to_funsor` with the inverse map — succeeds on well-formed scalar operands with consistent
    sizes, and its value at EVERY named point is `f` of the operands' values at that point,
    whatever order each operand lists its inputs in. -/
theorem madeOp_sem (sz : String → Nat) (f : α → α → α) (x y : Tensor α)
    (hx : TensorOK sz x) (hy : TensorOK sz y) (hxi : x.inputs ≠ []) (hyi : y.inputs ≠ []) :
    ∃ t, madeOp2 f x y = .ok t ∧
      ∀ env, (∀ n, env n < sz n) → t.atEnv env [] = f (x.atEnv env []) (y.atEnv env []) := by
  obtain ⟨hxw, hxk, hxs, hxo⟩ := hx
  obtain ⟨hyw, hyk, hys, hyo⟩ := hy
  obtain ⟨hv, hneg, hkn, hall⟩ := madeDims_ok [x, y]
  generalize hn2d : madeDims [x, y] = n2d at *
  obtain ⟨Ux, hUx, hUxn, _⟩ := mapM_lookup_nodup n2d hv hkn x.keys hxk (hall x (by simp))
  obtain ⟨Uy, hUy, hUyn, _⟩ := mapM_lookup_nodup n2d hv hkn y.keys hyk (hall y (by simp))
  obtain ⟨a, dx, rx, hSx, ha, hal, hpa⟩ := operand_padded x n2d hxw hxi hneg hxo Ux hUx hUxn
  obtain ⟨b, dy, ry, hSy, hb, hbl, hpb⟩ := operand_padded y n2d hyw hyi hneg hyo Uy hUy hUyn
  generalize hn : max a.shape.length b.shape.length = n
  obtain ⟨a', hpa', has, hav⟩ := hpa n (by rw [← hal, ← hn]; exact Nat.le_max_left _ _)
  obtain ⟨b', hpb', hbs, hbv⟩ := hpb n (by rw [← hbl, ← hn]; exact Nat.le_max_right _ _)
  generalize hd2n : (n2d.map fun p => (p.2, p.1)) = d2n at *
  have hLx := fun env => operand_dims sz x n2d hv hxs Ux hUx hUxn env
  have hLy := fun env => operand_dims sz y n2d hv hys Uy hUy hUyn env
  rw [hd2n] at hLx hLy
  have hmx : ∀ d, d ∈ sortInts Ux ↔ d ∈ Ux := fun d => mem_sortInts d Ux
  have hmy : ∀ d, d ∈ sortInts Uy ↔ d ∈ Uy := fun d => mem_sortInts d Uy
  generalize hhx : sizeAt Ux x.sizes = hX at *
  generalize hhy : sizeAt Uy y.sizes = hY at *
  -- the broadcast shape
  let σ : Nat → Nat := fun j => if sigmaAx (sortInts Ux) hX n j = 1 then sigmaAx (sortInts Uy) hY n j
    else sigmaAx (sortInts Ux) hX n j
  have hcompat : ∀ j : Nat, sigmaAx (sortInts Ux) hX n j = sigmaAx (sortInts Uy) hY n j ∨
      sigmaAx (sortInts Ux) hX n j = 1 ∨ sigmaAx (sortInts Uy) hY n j = 1 := by
    intro j
    by_cases h1 : (j : Int) - (n : Int) ∈ sortInts Ux
    · by_cases h2 : (j : Int) - (n : Int) ∈ sortInts Uy
      · obtain ⟨k1, hk1, hs1, _⟩ := (hLx (fun _ => 0)).2 _ ((hmx _).mp h1)
        obtain ⟨k2, hk2, hs2, _⟩ := (hLy (fun _ => 0)).2 _ ((hmy _).mp h2)
        rw [hk1] at hk2
        left; simp only [sigmaAx, h1, h2, if_true, hs1, hs2, Option.some.inj hk2]
      · right; right; simp [sigmaAx, h2]
    · right; left; simp [sigmaAx, h1]
  have hbsh : bshape2 a'.shape b'.shape = some ((List.range n).map σ) := by
    rw [has, hbs]; exact bshape2_map _ _ _ (fun j _ => hcompat j)
  -- unfold the rule up to to_funsor
  have hd2nne : d2n ≠ [] := by
    rw [← hd2n]
    cases hk : x.inputs with
    | nil => exact absurd hk hxi
    | cons p ps =>
      have := hall x (by simp) p.1 (by simp [Tensor.keys, hk])
      cases hnn : n2d with
      | nil => rw [hnn] at this; simp at this
      | cons q qs => simp
  have hd2nneg : ∀ p ∈ d2n, p.1 < 0 := by
    intro p hp; rw [← hd2n] at hp
    simp only [List.mem_map] at hp
    obtain ⟨q, hq, rfl⟩ := hp
    exact hneg q hq
  have hd2ninj : (d2n.map (·.2)).Nodup := by
    rw [← hd2n, List.map_map]; exact hkn
  let data : Arr α := ⟨(List.range n).map σ,
    fun idx => f (a'.get (clip a'.shape idx)) (b'.get (clip b'.shape idx))⟩
  have hbc : bcast2 f a b = .ok data := by
    simp only [bcast2, hn, hpa', hpb', hbsh]; rfl
  have hlist : (axisNames d2n ((List.range n).map σ).length).zip ((List.range n).map σ)
      = (List.range n).map (fun (j : Nat) => (lookup ((j : Int) - (n : Int)) d2n, σ j)) := by
    simp only [List.length_map, List.length_range, axisNames]
    exact zip_map_same _ _ _
  -- every non-trivial axis is named, with its size
  have hσname : ∀ j, σ j ≠ 1 → ∃ k, lookup ((j : Int) - (n : Int)) d2n = some k ∧ σ j = sz k := by
    intro j hj
    by_cases h1 : sigmaAx (sortInts Ux) hX n j = 1
    · have hσj : σ j = sigmaAx (sortInts Uy) hY n j := by simp only [σ, h1, if_true]
      rw [hσj] at hj ⊢
      by_cases h2 : (j : Int) - (n : Int) ∈ sortInts Uy
      · obtain ⟨k, hk, hs, _⟩ := (hLy (fun _ => 0)).2 _ ((hmy _).mp h2)
        exact ⟨k, hk, by simp [sigmaAx, h2, hs]⟩
      · simp [sigmaAx, h2] at hj
    · have hσj : σ j = sigmaAx (sortInts Ux) hX n j := by simp only [σ, h1, if_false]
      rw [hσj]
      by_cases h2 : (j : Int) - (n : Int) ∈ sortInts Ux
      · obtain ⟨k, hk, hs, _⟩ := (hLx (fun _ => 0)).2 _ ((hmx _).mp h2)
        exact ⟨k, hk, by simp [sigmaAx, h2, hs]⟩
      · simp [sigmaAx, h2] at h1
  have hnamed : AllNamed ((axisNames d2n ((List.range n).map σ).length).zip ((List.range n).map σ)) := by
    rw [hlist]
    intro p hp hnone
    simp only [List.mem_map, List.mem_range] at hp
    obtain ⟨j, _, rfl⟩ := hp
    by_cases h1 : σ j = 1
    · exact h1
    · obtain ⟨k, hk, _⟩ := hσname j h1
      simp only at hnone; rw [hk] at hnone; cases hnone
  obtain ⟨t, ht, hti, _, _, hsem⟩ := toFunsor_sem data ((List.range n).map σ) [] none d2n hd2nne hd2nneg
    (by simp [data]) hnamed
    (packed_nodup_of_consistent _ _ _ (consistent_axisNames d2n hd2ninj _))
  refine ⟨t, ?_, ?_⟩
  · simp only [madeOp2, hn2d, Bool.false_eq_true, if_false, ha, hb, hbc, hd2n]
    exact ht
  · intro env henv
    have hbnd : ∀ p ∈ t.inputs, env p.1 < p.2 := by
      intro p hp
      rw [hti, hlist] at hp
      obtain ⟨j, _, hj, hne⟩ := packed_map_mem _ _ p hp
      simp only [Prod.mk.injEq] at hj
      obtain ⟨k, hk, hs⟩ := hσname j (by rw [hj.2]; exact hne)
      rw [hj.1] at hk
      rw [← hj.2, hs, ← Option.some.inj hk]; exact henv _
    have := hsem env [] hbnd rfl
    rw [List.append_nil, hlist, bidx_eq_map, List.map_map] at this
    rw [this]
    show f (a'.get (clip a'.shape _)) (b'.get (clip b'.shape _)) = _
    have cx := clip_operand sz d2n env henv (sortInts Ux) hX n σ
      (fun j h1 => by simp only [σ, h1, if_false])
      (fun d hd => (hLx env).2 d ((hmx d).mp hd))
    have cy := clip_operand sz d2n env henv (sortInts Uy) hY n σ
      (fun j h1 => by
        by_cases h0 : sigmaAx (sortInts Ux) hX n j = 1
        · simp only [σ, h0, if_true]
        · rcases hcompat j with h2 | h2 | h2
          · simp only [σ, h2]; split <;> rfl
          · exact absurd h2 h0
          · exact absurd h2 h1)
      (fun d hd => (hLy env).2 d ((hmy d).mp hd))
    simp only [Function.comp_def] at cx cy ⊢
    rw [has, hbs, cx, cy,
      hav (dimVal d2n env) (bounded_of_maps Ux x.inputs _ hX env
        (by rw [(hLx env).1]; simp [Tensor.keys]) (by rw [← hhx]; exact map_sizeAt Ux x.sizes hUxn (by
          have := mapM_some_length _ _ _ hUx; simpa [Tensor.keys, Tensor.sizes] using this))
        (fun p hp => by rw [hxs p hp]; exact henv _)),
      hbv (dimVal d2n env) (bounded_of_maps Uy y.inputs _ hY env
        (by rw [(hLy env).1]; simp [Tensor.keys]) (by rw [← hhy]; exact map_sizeAt Uy y.sizes hUyn (by
          have := mapM_some_length _ _ _ hUy; simpa [Tensor.keys, Tensor.sizes] using this))
        (fun p hp => by rw [hys p hp]; exact henv _)),
      (hLx env).1, (hLy env).1]
    simp [Tensor.atEnv]


/-! ### callers of align_tensor(s) inside tensor.py, and align_tensor's guards (generated table) -/

/-- tensor.py callers with a stream in fv/harness/c19.py: `align_tensors` (aligntensors stream,
    `alignTensors_sem`), `eager_binary_tensor_tensor` (materialize / history binary steps,
    `binaryT_sem`), `eager_stack_homogeneous` and `eager_cat_homogeneous` (stack stream). -/
def coveredTensorCallers : List String :=
  ["align_tensors", "eager_binary_tensor_tensor", "eager_stack_homogeneous", "eager_cat_homogeneous"]

/-- tensor.py callers left to the property whose scope they fall in (by scope, not re-verified
    here): sampling is C14's; the finitary stack/cat/generic rules, `Function`, `Lambda`,
    tensor-indexed `getitem` and `Scatter` are term-evaluation rules exercised by the term-level
    correspondences of C01 (eager = denotation), C04 (substitution) and C06 (declared types). -/
def delegatedTensorCallers : List String :=
  ["Tensor._sample", "eager_finitary_cat", "eager_finitary_generic_tensors", "eager_finitary_stack",
   "eager_function", "eager_getitem_tensor_tensor", "eager_lambda", "eager_scatter_tensor"]

theorem tensor_callers_covered :
    ∀ c ∈ FV.Gen.C19Callers.tensorCallers,
      c ∈ coveredTensorCallers ∨ c ∈ delegatedTensorCallers := by decide

/-- `align_tensor`'s early return compares two `OrderedDict`s (order-SENSITIVE equality, which is
    what the model's `x.inputs = newInputs` on lists is): the source must keep asserting that the
    target is an `OrderedDict` — `OrderedDict == dict` is order-insensitive and would skip the
    permutation for a target with the same names in another order. -/
theorem alignTensor_guards_pinned :
    "assert isinstance(new_inputs, OrderedDict)" ∈ FV.Gen.C19Callers.alignTensorGuards ∧
    "if old_inputs == new_inputs:" ∈ FV.Gen.C19Callers.alignTensorGuards := by decide


/-- `output=None`: the event shape is inferred from the leftmost key of `dim_to_name`, after which
    the conversion is the one with that explicit output (so all theorems above apply to it). -/
theorem toFunsor_output_none (x : Arr α) (dtype : Option Nat) (d2n : List (Int × String))
    (hd : d2n ≠ []) (m : Int) (hm : minInt (d2n.map (·.1)) = some m) :
    toFunsor x none dtype (some d2n)
      = toFunsor x (some (x.shape.drop (min (-m).toNat x.shape.length))) dtype (some d2n) := by
  cases d2n with
  | nil => exact absurd rfl hd
  | cons e d => simp only [toFunsor, hm]


/-! ### non-vacuity: the hypotheses are satisfiable, and are needed -/

/-- A 1×2×3 array of distinct entries (row-major arange). -/
def exX : Arr Nat := ⟨[1, 2, 3], fun idx => ravel [1, 2, 3] idx⟩

/-- `dim_to_name = {-1: "a", -2: "b"}` with event shape `(3,)`: hypotheses of `toFunsor_sem`,
    `toData_toFunsor_roundtrip` hold (the size-1 axis "b" is squeezed, "a" survives). -/
example : AllNamed ((axisNames [(-1, "a"), (-2, "b")] 2).zip [1, 2]) ∧
    ((packedSpec ((axisNames [(-1, "a"), (-2, "b")] 2).zip [1, 2])).map (·.1)).Nodup ∧
    packedSpec ((axisNames [(-1, "a"), (-2, "b")] 2).zip [1, 2]) = [("a", 2)] := by
  refine ⟨?_, ?_, ?_⟩
  · unfold AllNamed; decide
  · decide
  · decide

example : (match toFunsor exX (some [3]) none (some [(-1, "a"), (-2, "b")]) with
    | .ok f => (f.inputs, f.data.shape, f.data.toFlat)
    | .error _ => ([], [], [])) = ([("a", 2)], [2, 3], [0, 1, 2, 3, 4, 5]) := by decide

example : (match toFunsor exX (some [3]) none (some [(-1, "a"), (-2, "b")]) with
    | .ok f => (match toData f (some [("a", -1), ("b", -2)]) with
      | .ok r => (r.shape, r.toFlat)
      | .error _ => ([], []))
    | .error _ => ([], [])) = ([2, 3], [0, 1, 2, 3, 4, 5]) := by decide

/-- The hypothesis of `toFunsor_rejects_unnamed` is satisfiable: axis of size 2 without a name. -/
example : ¬ AllNamed ((axisNames [(-2, "b")] 2).zip [1, 2]) := by unfold AllNamed; decide

/-- **Witness that `dim_to_name ≠ {}` is needed.**  With an empty `dim_to_name` the code takes the
    `Tensor(x)` branch and insists on `output.shape == x.shape`: a size-1 batch axis is *not*
    squeezed there although "every batch axis of size ≠ 1 is named" holds vacuously. -/
theorem toFunsor_empty_d2n_witness :
    (match toFunsor (⟨[1, 3], fun idx => ravel [1, 3] idx⟩ : Arr Nat) (some [3]) none (some []) with
      | .ok _ => false | .error e => e == .valueError) = true := by decide

/-- A well-formed tensor with distinct names for `align_sem`: inputs (a:3, b:2), event shape (2). -/
def exT : Tensor Nat := ⟨[("a", 3), ("b", 2)], ⟨[3, 2, 2], fun idx => ravel [3, 2, 2] idx⟩, none⟩

example : exT.WF ∧ exT.keys.Nodup ∧ ["b"].Nodup ∧ ∀ n ∈ ["b"], n ∈ exT.keys := by
  refine ⟨by unfold Tensor.WF; decide, by decide, by decide, by decide⟩

example : (match exT.align ["b"] with
    | .ok t => (t.inputs, t.data.shape, t.data.toFlat)
    | .error _ => ([], [], [])) = ([("b", 2), ("a", 3)], [2, 3, 2], [0, 1, 4, 5, 8, 9, 2, 3, 6, 7, 10, 11]) := by
  decide


/-- Hypotheses of `alignTensor_sem` are satisfiable: `exT` (a:3, b:2) into the target (b, z, a). -/
example : (∀ p ∈ exT.inputs, p ∈ [("b", 2), ("z", 4), ("a", 3)]) ∧
    (([("b", 2), ("z", 4), ("a", 3)] : Inputs).map (·.1)).Nodup := by
  refine ⟨by decide, by decide⟩

example : (match alignTensor [("b", 2), ("z", 4), ("a", 3)] exT false with
    | .ok r => (r.shape, r.toFlat)
    | .error _ => ([], [])) = ([2, 1, 3, 2], [0, 1, 4, 5, 8, 9, 2, 3, 6, 7, 10, 11]) := by decide


/-- Hypotheses of `toData_sem` are satisfiable with a genuinely non-identity, non-involutive
    permutation: inputs (a, b, c) requested on dims (-2, -1, -3). -/
example : (["a", "b", "c"].mapM (fun k => lookup k [("a", (-2 : Int)), ("b", -1), ("c", -3)]))
      = some [-2, -1, -3] ∧ ([-2, -1, -3] : List Int).Nodup ∧
    sortInts [-2, -1, -3] = [-3, -2, -1] ∧
    ([-3, -2, -1] : List Int).map (fun d => pos d [-2, -1, -3]) = [2, 0, 1] := by
  refine ⟨by decide, by decide, by decide, by decide⟩

/-- Hypotheses of `binaryT_sem` / `alignTensors_sem`: two scalar tensors over a:2, b:3. -/
example : TensorOK (fun n => if n = "a" then 2 else 3)
      (⟨[("a", 2), ("b", 3)], ⟨[2, 3], fun idx => ravel [2, 3] idx⟩, none⟩ : Tensor Nat) ∧
    TensorOK (fun n => if n = "a" then 2 else 3)
      (⟨[("b", 3)], ⟨[3], fun idx => ravel [3] idx⟩, none⟩ : Tensor Nat) := by
  refine ⟨⟨?_, ?_, ?_, ?_⟩, ⟨?_, ?_, ?_, ?_⟩⟩ <;>
    first | (unfold Tensor.WF; decide) | (unfold SizedI; decide) | decide

/-- `Contraction.align` on a lazy product of (a, b) and (b) tensors, asked for (b, a): the
    operands are re-aligned and the result already has the requested order. -/
example : (match (LTerm.contract 0 1 []
      (.tensor (⟨[("a", 2), ("b", 3)], ⟨[2, 3], fun idx => ravel [2, 3] idx⟩, none⟩ : Tensor Nat))
      (.tensor ⟨[("b", 3)], ⟨[3], fun idx => ravel [3] idx⟩, none⟩)).alignT ["b", "a"] with
    | some t => t.keys
    | none => []) = ["b", "a"] := by decide

example : (match deltaAlign [("x", 1), ("y", 2), ("z", 3)] ["z", "x", "y"] with
    | .ok r => r | .error _ => []) = [("z", 3), ("x", 1), ("y", 2)] := by decide


end FV.Props.C19
