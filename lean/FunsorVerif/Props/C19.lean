/-
  Props/C19.lean — conversions and re-alignment never move data to the wrong name.
  All theorems are for arrays of any rank and any sizes (induction on the shape), over the
  model in Model/C19.lean.
-/
import FunsorVerif.Model.C19
namespace FV.Props.C19
open FV.C19
variable {α : Type}

theorem inb_length : ∀ (s i : List Nat), inb s i = true → i.length = s.length
  | [], [], _ => rfl
  | [], _ :: _, h => by simp [inb] at h
  | _ :: _, [], h => by simp [inb] at h
  | s :: ss, i :: is, h => by
      simp only [inb, Bool.and_eq_true, decide_eq_true_eq] at h
      simp [inb_length ss is h.2]

theorem ravel_lt : ∀ (s i : List Nat), inb s i = true → ravel s i < prod s
  | [], [], _ => by simp [ravel, prod]
  | [], _ :: _, h => by simp [inb] at h
  | _ :: _, [], h => by simp [inb] at h
  | s :: ss, i :: is, h => by
      simp only [inb, Bool.and_eq_true, decide_eq_true_eq] at h
      have ih := ravel_lt ss is h.2
      simp only [ravel, prod]
      calc i * prod ss + ravel ss is < i * prod ss + prod ss := by omega
        _ = (i + 1) * prod ss := by rw [Nat.add_mul, Nat.one_mul]
        _ ≤ s * prod ss := Nat.mul_le_mul_right _ h.1

theorem unravel_ravel : ∀ (s i : List Nat), inb s i = true → unravel s (ravel s i) = i
  | [], [], _ => rfl
  | [], _ :: _, h => by simp [inb] at h
  | _ :: _, [], h => by simp [inb] at h
  | s :: ss, i :: is, h => by
      simp only [inb, Bool.and_eq_true, decide_eq_true_eq] at h
      have ih := unravel_ravel ss is h.2
      have hlt := ravel_lt ss is h.2
      have hpos : 0 < prod ss := by omega
      simp only [ravel, unravel]
      have h1 : (i * prod ss + ravel ss is) / prod ss = i := by
        rw [Nat.mul_comm, Nat.mul_add_div hpos, Nat.div_eq_of_lt hlt, Nat.add_zero]
      have h2 : (i * prod ss + ravel ss is) % prod ss = ravel ss is := by
        rw [Nat.mul_comm, Nat.mul_add_mod, Nat.mod_eq_of_lt hlt]
      rw [h1, h2, ih]

theorem inb_unravel : ∀ (s : List Nat) (k : Nat), k < prod s → inb s (unravel s k) = true
  | [], _, _ => rfl
  | s :: ss, k, h => by
      simp only [prod] at h
      have hpos : 0 < prod ss := by
        rcases Nat.eq_zero_or_pos (prod ss) with h0 | h0
        · rw [h0] at h; omega
        · exact h0
      simp only [unravel, inb, Bool.and_eq_true, decide_eq_true_eq]
      refine ⟨?_, inb_unravel ss _ (Nat.mod_lt _ hpos)⟩
      rw [Nat.div_lt_iff_lt_mul hpos]; exact h

theorem ravel_unravel : ∀ (s : List Nat) (k : Nat), k < prod s → ravel s (unravel s k) = k
  | [], k, h => by simp [prod] at h; simp [ravel, h]
  | s :: ss, k, h => by
      simp only [prod] at h
      have hpos : 0 < prod ss := by
        rcases Nat.eq_zero_or_pos (prod ss) with h0 | h0
        · rw [h0] at h; omega
        · exact h0
      simp only [unravel, ravel]
      rw [ravel_unravel ss _ (Nat.mod_lt _ hpos)]
      exact Nat.div_add_mod' k (prod ss)


/-! ### tensor_to_funsor -/

/-- Spec of the packed inputs: the named batch axes of size ≠ 1, in axis order. -/
def packedSpec : List (Option String × Nat) → Inputs
  | [] => []
  | (some n, s) :: l => if s ≠ 1 then (n, s) :: packedSpec l else packedSpec l
  | (none, _) :: l => packedSpec l

/-- The batch index of `x` that the named point `env` denotes (squeezed axes read at 0). -/
def bidx (env : String → Nat) : List (Option String × Nat) → List Nat
  | [] => []
  | (some n, s) :: l => (if s ≠ 1 then env n else 0) :: bidx env l
  | (none, _) :: l => 0 :: bidx env l

/-- Every batch axis of size ≠ 1 is named (decidable). -/
def AllNamed (l : List (Option String × Nat)) : Prop := ∀ p ∈ l, p.1 = none → p.2 = 1

theorem oset_append (acc : Inputs) (k : String) (v : Nat) (h : k ∉ acc.map (·.1)) :
    oset acc k v = acc ++ [(k, v)] := by
  induction acc with
  | nil => rfl
  | cons p acc ih =>
    obtain ⟨k', v'⟩ := p
    simp only [List.map_cons, List.mem_cons, not_or] at h
    simp only [oset]
    rw [if_neg (fun e => h.1 e.symm), ih h.2]; rfl

theorem packLoop_spec : ∀ (l : List (Option String × Nat)) (acc : Inputs),
    ((acc ++ packedSpec l).map (·.1)).Nodup → packLoop l acc = acc ++ packedSpec l
  | [], acc, _ => by simp [packLoop, packedSpec]
  | (none, s) :: l, acc, h => by
      simp only [packLoop, packedSpec] at h ⊢; exact packLoop_spec l acc h
  | (some n, s) :: l, acc, h => by
      simp only [packLoop, packedSpec] at h ⊢
      by_cases hs : s = 1
      · simp only [hs, ne_eq, not_true_eq_false, if_false] at h ⊢; exact packLoop_spec l acc h
      · simp only [ne_eq, hs, not_false_eq_true, if_true] at h ⊢
        have hn : n ∉ acc.map (·.1) := by
          intro hmem
          simp only [List.map_append, List.map_cons, List.nodup_append] at h
          exact h.2.2 n hmem n (by simp) rfl
        rw [oset_append acc n s hn, packLoop_spec l _ (by simpa using h)]
        simp

theorem prod_packed (es : List Nat) : ∀ (l : List (Option String × Nat)), AllNamed l →
    prod ((packedSpec l).map (·.2) ++ es) = prod (l.map (·.2) ++ es)
  | [], _ => rfl
  | (none, s) :: l, h => by
      have hs : s = 1 := h (none, s) (by simp) rfl
      have ih := prod_packed es l (fun p hp => h p (by simp [hp]))
      simp only [packedSpec, List.map_cons, List.cons_append, prod, hs, Nat.one_mul]; exact ih
  | (some n, s) :: l, h => by
      have ih := prod_packed es l (fun p hp => h p (by simp [hp]))
      by_cases hs : s = 1
      · simp only [packedSpec, hs, ne_eq, not_true_eq_false, if_false, List.map_cons,
          List.cons_append, prod, Nat.one_mul]; exact ih
      · simp only [packedSpec, ne_eq, hs, not_false_eq_true, if_true, List.map_cons,
          List.cons_append, prod, ih]

theorem ravel_packed (env : String → Nat) (es ev : List Nat) :
    ∀ (l : List (Option String × Nat)), AllNamed l →
    ravel ((packedSpec l).map (·.2) ++ es) ((packedSpec l).map (fun p => env p.1) ++ ev)
      = ravel (l.map (·.2) ++ es) (bidx env l ++ ev)
  | [], _ => rfl
  | (none, s) :: l, h => by
      have ih := ravel_packed env es ev l (fun p hp => h p (by simp [hp]))
      simp only [packedSpec, bidx, List.map_cons, List.cons_append, ravel, Nat.zero_mul,
        Nat.zero_add]; exact ih
  | (some n, s) :: l, h => by
      have hl : AllNamed l := fun p hp => h p (by simp [hp])
      have ih := ravel_packed env es ev l hl
      by_cases hs : s = 1
      · simp only [packedSpec, bidx, hs, ne_eq, not_true_eq_false, if_false, List.map_cons,
          List.cons_append, ravel, Nat.zero_mul, Nat.zero_add]; exact ih
      · simp only [packedSpec, bidx, ne_eq, hs, not_false_eq_true, if_true, List.map_cons,
          List.cons_append, ravel, ih, prod_packed es l hl]

theorem inb_append : ∀ (s i t j : List Nat), inb s i = true → inb t j = true →
    inb (s ++ t) (i ++ j) = true
  | [], [], _, _, _, h => h
  | [], _ :: _, _, _, h, _ => by simp [inb] at h
  | _ :: _, [], _, _, h, _ => by simp [inb] at h
  | s :: ss, i :: is, t, j, h, h2 => by
      simp only [inb, Bool.and_eq_true, decide_eq_true_eq, List.cons_append] at h ⊢
      exact ⟨h.1, inb_append ss is t j h.2 h2⟩

theorem inb_bidx (env : String → Nat) : ∀ (l : List (Option String × Nat)), AllNamed l →
    (∀ p ∈ packedSpec l, env p.1 < p.2) → inb (l.map (·.2)) (bidx env l) = true
  | [], _, _ => rfl
  | (none, s) :: l, h, he => by
      have hs : s = 1 := h (none, s) (by simp) rfl
      simp only [List.map_cons, bidx, inb, hs, Bool.and_eq_true, decide_eq_true_eq]
      exact ⟨by omega, inb_bidx env l (fun p hp => h p (by simp [hp])) (by simpa [packedSpec] using he)⟩
  | (some n, s) :: l, h, he => by
      have hl : AllNamed l := fun p hp => h p (by simp [hp])
      by_cases hs : s = 1
      · simp only [packedSpec, hs, ne_eq, not_true_eq_false, if_false] at he
        simp only [List.map_cons, bidx, inb, hs, ne_eq, not_true_eq_false, if_false,
          Bool.and_eq_true, decide_eq_true_eq]
        exact ⟨by omega, inb_bidx env l hl he⟩
      · simp only [packedSpec, ne_eq, hs, not_false_eq_true, if_true, List.mem_cons,
          forall_eq_or_imp] at he
        simp only [List.map_cons, bidx, inb, ne_eq, hs, not_false_eq_true, if_true,
          Bool.and_eq_true, decide_eq_true_eq]
        exact ⟨he.1, inb_bidx env l hl he.2⟩


theorem zip_append_right {β γ : Type} : ∀ (as : List β) (bs cs : List γ), as.length = bs.length →
    as.zip (bs ++ cs) = as.zip bs
  | [], _, _, _ => by simp
  | a :: as, [], _, h => by simp at h
  | a :: as, b :: bs, cs, h => by
      simp only [List.cons_append, List.zip_cons_cons, List.cons.injEq, true_and]
      exact zip_append_right as bs cs (by simpa using h)

theorem axisNames_length (d2n : List (Int × String)) (nb : Nat) :
    (axisNames d2n nb).length = nb := by simp [axisNames]

/-- `to_funsor(x, output, dim_to_name)` with a non-empty all-negative `dim_to_name`, unfolded. -/
theorem toFunsor_unfold (x : Arr α) (es : List Nat) (dtype : Option Nat)
    (d2n : List (Int × String)) (hd : d2n ≠ []) (hneg : ∀ p ∈ d2n, p.1 < 0) :
    toFunsor x (some es) dtype (some d2n) =
      match reshape x ((packLoop ((axisNames d2n (x.shape.length - es.length)).zip x.shape) []).map
          (·.2) ++ es) with
      | .ok data => .ok ⟨packLoop ((axisNames d2n (x.shape.length - es.length)).zip x.shape) [],
          data, dtype⟩
      | .error e => .error e := by
  cases d2n with
  | nil => exact absurd rfl hd
  | cons e d =>
    have : ((e :: d).all fun p => decide (p.1 < 0)) = true := by
      rw [List.all_eq_true]; intro p hp; exact decide_eq_true (hneg p hp)
    simp only [toFunsor, this, Bool.not_true, Bool.false_eq_true, if_false]
    rfl

/-- **toFunsor_sem.**  If every batch axis of size ≠ 1 is named (and the names used are distinct),
    `to_funsor` succeeds, its inputs are exactly the named non-trivial axes in axis order, and the
    value at every named point is the array entry at the corresponding index. -/
theorem toFunsor_sem (x : Arr α) (bs es : List Nat) (dtype : Option Nat)
    (d2n : List (Int × String)) (hd : d2n ≠ []) (hneg : ∀ p ∈ d2n, p.1 < 0)
    (hshape : x.shape = bs ++ es)
    (hnamed : AllNamed ((axisNames d2n bs.length).zip bs))
    (hnodup : ((packedSpec ((axisNames d2n bs.length).zip bs)).map (·.1)).Nodup) :
    ∃ f, toFunsor x (some es) dtype (some d2n) = .ok f ∧
      f.inputs = packedSpec ((axisNames d2n bs.length).zip bs) ∧ f.dtype = dtype ∧
      f.data.shape = f.sizes ++ es ∧
      ∀ env ev, (∀ p ∈ f.inputs, env p.1 < p.2) → inb es ev = true →
        f.atEnv env ev = x.get (bidx env ((axisNames d2n bs.length).zip bs) ++ ev) := by
  have hlen : (axisNames d2n bs.length).length = bs.length := axisNames_length _ _
  have hnb : x.shape.length - es.length = bs.length := by simp [hshape]
  have hzip : (axisNames d2n bs.length).zip x.shape = (axisNames d2n bs.length).zip bs := by
    rw [hshape]; exact zip_append_right _ _ _ hlen
  have hsnd : ((axisNames d2n bs.length).zip bs).map (·.2) = bs := by
    rw [List.map_snd_zip]; omega
  generalize hl : (axisNames d2n bs.length).zip bs = l at *
  have hpack : packLoop l [] = packedSpec l := by
    have := packLoop_spec l [] (by simpa using hnodup); simpa using this
  have hprod := prod_packed es l hnamed
  rw [hsnd] at hprod
  rw [toFunsor_unfold x es dtype d2n hd hneg, hnb, hzip, hpack]
  simp only [reshape, hshape, hprod, if_true]
  refine ⟨_, rfl, rfl, rfl, rfl, ?_⟩
  intro env ev henv hev
  simp only [Tensor.atEnv, Tensor.keys, List.map_map, Function.comp_def]
  have hr := ravel_packed env es ev l hnamed
  rw [hsnd] at hr
  rw [hr]
  have hin : inb (bs ++ es) (bidx env l ++ ev) = true := by
    have := inb_bidx env l hnamed henv
    rw [hsnd] at this
    exact inb_append _ _ _ _ this hev
  rw [unravel_ravel _ _ hin]


/-! ### the rejection branch -/

theorem prod_append : ∀ (a b : List Nat), prod (a ++ b) = prod a * prod b
  | [], b => by simp [prod]
  | x :: a, b => by simp only [List.cons_append, prod, prod_append a b, Nat.mul_assoc]

theorem prod_pos : ∀ (a : List Nat), (∀ s ∈ a, 0 < s) → 0 < prod a
  | [], _ => by simp [prod]
  | x :: a, h => by
      simp only [prod]
      exact Nat.mul_pos (h x (by simp)) (prod_pos a (fun s hs => h s (by simp [hs])))

theorem prod_oset_le : ∀ (acc : Inputs) (n : String) (s : Nat), (∀ p ∈ acc, 0 < p.2) → 0 < s →
    prod ((oset acc n s).map (·.2)) ≤ prod (acc.map (·.2)) * s ∧ (∀ p ∈ oset acc n s, 0 < p.2)
  | [], n, s, _, hs => by simp [oset, prod, hs]
  | (k', v') :: acc, n, s, h, hs => by
      have hv : 0 < v' := h (k', v') (by simp)
      have hacc : ∀ p ∈ acc, 0 < p.2 := fun p hp => h p (by simp [hp])
      simp only [oset]
      by_cases hk : k' = n
      · simp only [hk, if_true, List.map_cons, prod]
        refine ⟨?_, ?_⟩
        · calc s * prod (acc.map (·.2)) ≤ s * (v' * prod (acc.map (·.2))) :=
                Nat.mul_le_mul_left _ (Nat.le_mul_of_pos_left _ hv)
            _ = v' * prod (acc.map (·.2)) * s := Nat.mul_comm _ _
        · intro p hp
          simp only [List.mem_cons] at hp
          rcases hp with rfl | hp
          · exact hs
          · exact hacc p hp
      · have ih := prod_oset_le acc n s hacc hs
        simp only [hk, if_false, List.map_cons, prod]
        refine ⟨?_, ?_⟩
        · calc v' * prod ((oset acc n s).map (·.2)) ≤ v' * (prod (acc.map (·.2)) * s) :=
                Nat.mul_le_mul_left _ ih.1
            _ = v' * prod (acc.map (·.2)) * s := (Nat.mul_assoc _ _ _).symm
        · intro p hp
          simp only [List.mem_cons] at hp
          rcases hp with rfl | hp
          · exact hv
          · exact ih.2 p hp

theorem prod_packLoop_le : ∀ (l : List (Option String × Nat)) (acc : Inputs),
    (∀ p ∈ acc, 0 < p.2) → (∀ p ∈ l, 0 < p.2) →
    prod ((packLoop l acc).map (·.2)) ≤ prod (acc.map (·.2)) * prod (l.map (·.2))
  | [], acc, _, _ => by simp [packLoop, prod]
  | (none, s) :: l, acc, ha, hl => by
      have hs : 0 < s := hl (none, s) (by simp)
      have ih := prod_packLoop_le l acc ha (fun p hp => hl p (by simp [hp]))
      simp only [packLoop, List.map_cons, prod]
      calc _ ≤ prod (acc.map (·.2)) * prod (l.map (·.2)) := ih
        _ ≤ prod (acc.map (·.2)) * (s * prod (l.map (·.2))) :=
            Nat.mul_le_mul_left _ (Nat.le_mul_of_pos_left _ hs)
  | (some n, s) :: l, acc, ha, hl => by
      have hs : 0 < s := hl (some n, s) (by simp)
      have hl' : ∀ p ∈ l, 0 < p.2 := fun p hp => hl p (by simp [hp])
      simp only [packLoop, List.map_cons, prod]
      by_cases h1 : s = 1
      · simp only [h1, ne_eq, not_true_eq_false, if_false, Nat.one_mul]
        exact prod_packLoop_le l acc ha hl'
      · simp only [ne_eq, h1, not_false_eq_true, if_true]
        have ho := prod_oset_le acc n s ha hs
        calc _ ≤ prod ((oset acc n s).map (·.2)) * prod (l.map (·.2)) :=
              prod_packLoop_le l _ ho.2 hl'
          _ ≤ prod (acc.map (·.2)) * s * prod (l.map (·.2)) := Nat.mul_le_mul_right _ ho.1
          _ = prod (acc.map (·.2)) * (s * prod (l.map (·.2))) := Nat.mul_assoc _ _ _

theorem prod_packLoop_lt : ∀ (l : List (Option String × Nat)) (acc : Inputs),
    (∀ p ∈ acc, 0 < p.2) → (∀ p ∈ l, 0 < p.2) → ¬ AllNamed l →
    prod ((packLoop l acc).map (·.2)) < prod (acc.map (·.2)) * prod (l.map (·.2))
  | [], acc, _, _, hn => absurd (fun _ hp => by simp at hp) hn
  | (none, s) :: l, acc, ha, hl, hn => by
      have hs : 0 < s := hl (none, s) (by simp)
      have hl' : ∀ p ∈ l, 0 < p.2 := fun p hp => hl p (by simp [hp])
      have hle := prod_packLoop_le l acc ha hl'
      have hpa : 0 < prod (acc.map (·.2)) :=
        prod_pos _ (by intro s hs; simp only [List.mem_map] at hs; obtain ⟨p, hp, rfl⟩ := hs; exact ha p hp)
      have hpl : 0 < prod (l.map (·.2)) :=
        prod_pos _ (by intro s hs; simp only [List.mem_map] at hs; obtain ⟨p, hp, rfl⟩ := hs; exact hl' p hp)
      simp only [packLoop, List.map_cons, prod]
      by_cases h1 : s = 1
      · -- this axis is fine; the offending one is further right
        have hn' : ¬ AllNamed l := by
          intro hall; apply hn; intro p hp
          simp only [List.mem_cons] at hp
          rcases hp with rfl | hp
          · intro _; exact h1
          · exact hall p hp
        simp only [h1, Nat.one_mul]
        exact prod_packLoop_lt l acc ha hl' hn'
      · have h2 : 2 ≤ s := by omega
        calc _ ≤ prod (acc.map (·.2)) * prod (l.map (·.2)) := hle
          _ < prod (acc.map (·.2)) * (s * prod (l.map (·.2))) := by
              apply Nat.mul_lt_mul_of_pos_left _ hpa
              calc prod (l.map (·.2)) = 1 * prod (l.map (·.2)) := (Nat.one_mul _).symm
                _ < s * prod (l.map (·.2)) := Nat.mul_lt_mul_of_pos_right (by omega) hpl
  | (some n, s) :: l, acc, ha, hl, hn => by
      have hs : 0 < s := hl (some n, s) (by simp)
      have hl' : ∀ p ∈ l, 0 < p.2 := fun p hp => hl p (by simp [hp])
      have hn' : ¬ AllNamed l := by
        intro hall; apply hn; intro p hp
        simp only [List.mem_cons] at hp
        rcases hp with rfl | hp
        · intro h; simp at h
        · exact hall p hp
      simp only [packLoop, List.map_cons, prod]
      by_cases h1 : s = 1
      · simp only [h1, ne_eq, not_true_eq_false, if_false, Nat.one_mul]
        exact prod_packLoop_lt l acc ha hl' hn'
      · simp only [ne_eq, h1, not_false_eq_true, if_true]
        have ho := prod_oset_le acc n s ha hs
        have hpl : 0 < prod (l.map (·.2)) :=
          prod_pos _ (by intro s hs; simp only [List.mem_map] at hs; obtain ⟨p, hp, rfl⟩ := hs; exact hl' p hp)
        calc _ < prod ((oset acc n s).map (·.2)) * prod (l.map (·.2)) :=
              prod_packLoop_lt l _ ho.2 hl' hn'
          _ ≤ prod (acc.map (·.2)) * s * prod (l.map (·.2)) := Nat.mul_le_mul_right _ ho.1
          _ = prod (acc.map (·.2)) * (s * prod (l.map (·.2))) := Nat.mul_assoc _ _ _

/-- **toFunsor_rejects_unnamed.**  With positive sizes, a batch axis of size ≠ 1 that has no name
    makes `to_funsor` raise `ValueError` (whatever else `dim_to_name` contains, duplicates
    included): nothing is ever silently folded into a neighbouring axis. -/
theorem toFunsor_rejects_unnamed (x : Arr α) (bs es : List Nat) (dtype : Option Nat)
    (d2n : List (Int × String)) (hd : d2n ≠ []) (hneg : ∀ p ∈ d2n, p.1 < 0)
    (hshape : x.shape = bs ++ es) (hpos : ∀ s ∈ bs ++ es, 0 < s)
    (hun : ¬ AllNamed ((axisNames d2n bs.length).zip bs)) :
    toFunsor x (some es) dtype (some d2n) = .error .valueError := by
  have hlen : (axisNames d2n bs.length).length = bs.length := axisNames_length _ _
  have hnb : x.shape.length - es.length = bs.length := by simp [hshape]
  have hzip : (axisNames d2n bs.length).zip x.shape = (axisNames d2n bs.length).zip bs := by
    rw [hshape]; exact zip_append_right _ _ _ hlen
  have hsnd : ((axisNames d2n bs.length).zip bs).map (·.2) = bs := by
    rw [List.map_snd_zip]; omega
  generalize hl : (axisNames d2n bs.length).zip bs = l at *
  have hlpos : ∀ p ∈ l, 0 < p.2 := by
    intro p hp
    have : p.2 ∈ l.map (·.2) := List.mem_map_of_mem hp
    rw [hsnd] at this
    exact hpos _ (by simp [this])
  have hlt := prod_packLoop_lt l [] (by simp) hlpos hun
  rw [hsnd] at hlt
  simp only [List.map_nil, prod, Nat.one_mul] at hlt
  have hes : 0 < prod es := prod_pos _ (fun s hs => hpos s (by simp [hs]))
  rw [toFunsor_unfold x es dtype d2n hd hneg, hnb, hzip]
  have hne : prod ((packLoop l []).map (·.2) ++ es) ≠ prod x.shape := by
    rw [hshape, prod_append, prod_append]
    exact Nat.ne_of_lt (Nat.mul_lt_mul_of_pos_right hlt hes)
  simp only [reshape, hne, if_false]


/-! ### reshape-equivalence, identity permutation, sorting -/

/-- `r` has the same row-major buffer as `x` (possibly under another shape). -/
def IsReshapeOf (r x : Arr α) : Prop :=
  prod r.shape = prod x.shape ∧
    ∀ idx, inb r.shape idx = true → r.get idx = x.get (unravel x.shape (ravel r.shape idx))

theorem reshape_isReshape (a r : Arr α) (s : List Nat) (h : reshape a s = .ok r) :
    r.shape = s ∧ IsReshapeOf r a := by
  unfold reshape at h
  split at h
  · rename_i hp
    cases h
    exact ⟨rfl, hp, fun _ _ => rfl⟩
  · cases h

theorem isReshape_trans (a b c : Arr α) (h1 : IsReshapeOf b a) (h2 : IsReshapeOf c b) :
    IsReshapeOf c a := by
  refine ⟨h2.1.trans h1.1, ?_⟩
  intro idx hidx
  have hlt : ravel c.shape idx < prod b.shape := by rw [← h2.1]; exact ravel_lt _ _ hidx
  rw [h2.2 idx hidx, h1.2 _ (inb_unravel _ _ hlt), ravel_unravel _ _ hlt]

theorem isReshape_toFlat (r x : Arr α) (h : IsReshapeOf r x) : r.toFlat = x.toFlat := by
  unfold Arr.toFlat
  rw [h.1]
  apply List.map_congr_left
  intro k hk
  have hk' : k < prod r.shape := by rw [h.1]; simpa using hk
  rw [h.2 _ (inb_unravel _ _ hk'), ravel_unravel _ _ hk']

theorem pos_lt_of_mem {β : Type} [DecidableEq β] (a : β) : ∀ (l : List β), a ∈ l → pos a l < l.length
  | [], h => by simp at h
  | b :: l, h => by
      simp only [pos]
      by_cases hb : b = a
      · simp [hb]
      · simp only [hb, if_false, List.length_cons]
        have : a ∈ l := by
          simp only [List.mem_cons] at h
          rcases h with h | h
          · exact absurd h.symm hb
          · exact h
        have := pos_lt_of_mem a l this
        omega

theorem getElem_pos {β : Type} [DecidableEq β] (a : β) : ∀ (l : List β) (h : pos a l < l.length),
    l[pos a l] = a
  | [], h => by simp at h
  | b :: l, h => by
      by_cases hb : b = a
      · simp [pos, hb]
      · simp only [pos, hb, if_false, List.length_cons] at h ⊢
        simp only [List.getElem_cons_succ]
        exact getElem_pos a l (by omega)

theorem pos_getElem {β : Type} [DecidableEq β] : ∀ (l : List β) (i : Nat) (h : i < l.length),
    l.Nodup → pos l[i] l = i
  | [], i, h, _ => by simp at h
  | b :: l, 0, _, _ => by simp [pos]
  | b :: l, i + 1, h, hn => by
      simp only [List.nodup_cons] at hn
      have hi : i < l.length := by simpa using h
      simp only [List.getElem_cons_succ, pos]
      have hmem : l[i] ∈ l := List.getElem_mem _
      have hb : b ≠ l[i] := fun e => hn.1 (e ▸ hmem)
      simp only [hb, if_false]
      rw [pos_getElem l i hi hn.2]

theorem map_pos_self {β : Type} [DecidableEq β] (l : List β) (hn : l.Nodup) :
    l.map (fun d => pos d l) = List.range l.length := by
  apply List.ext_getElem
  · simp
  · intro i h1 h2
    simp only [List.getElem_map, List.getElem_range]
    exact pos_getElem l i (by simpa using h1) hn

theorem gather_range (v : List Nat) : gather v (List.range v.length) = v := by
  apply List.ext_getElem
  · simp [gather]
  · intro i h1 h2
    simp only [gather, List.getElem_map, List.getElem_range]
    simp only [gather, List.length_map, List.length_range] at h1
    simp [List.getD_eq_getElem?_getD, h1]

theorem invPerm_range (n : Nat) : invPerm (List.range n) = List.range n := by
  unfold invPerm
  rw [List.length_range]
  exact (map_pos_self (List.range n) List.nodup_range).trans (by simp)

theorem isPerm_range (n : Nat) : isPerm (List.range n) n = true := by
  simp [isPerm]

theorem permute_id_isReshape (a r : Arr α) (h : permute a (List.range a.shape.length) = .ok r) :
    r.shape = a.shape ∧ IsReshapeOf r a := by
  unfold permute at h
  rw [if_pos (isPerm_range _)] at h
  cases h
  refine ⟨gather_range _, by simp only [gather_range], ?_⟩
  intro idx hidx
  simp only [gather_range] at hidx ⊢
  have hl := inb_length _ _ hidx
  rw [invPerm_range, ← hl, gather_range, unravel_ravel _ _ hidx]

theorem sortInts_of_sorted : ∀ (l : List Int), l.Pairwise (· < ·) → sortInts l = l
  | [], _ => rfl
  | [a], _ => rfl
  | a :: b :: l, h => by
      simp only [List.pairwise_cons] at h
      have ih := sortInts_of_sorted (b :: l) (by simp only [List.pairwise_cons]; exact h.2)
      simp only [sortInts] at ih ⊢
      rw [ih]
      have : a ≤ b := Int.le_of_lt (h.1 b (by simp))
      simp [insertSorted, this]


/-! ### tensor_to_data after tensor_to_funsor -/

/-- The (negative) dims of the axes that survive packing, `off` being the dim of the first axis. -/
def keptDims : Int → List (Option String × Nat) → List Int
  | _, [] => []
  | off, (some _, s) :: l => if s ≠ 1 then off :: keptDims (off + 1) l else keptDims (off + 1) l
  | off, (none, _) :: l => keptDims (off + 1) l

theorem keptDims_bounds : ∀ (off : Int) (l : List (Option String × Nat)),
    ∀ d ∈ keptDims off l, off ≤ d ∧ d < off + l.length
  | _, [], d, h => by simp [keptDims] at h
  | off, (none, s) :: l, d, h => by
      have := keptDims_bounds (off + 1) l d (by simpa [keptDims] using h)
      simp only [List.length_cons]; omega
  | off, (some n, s) :: l, d, h => by
      simp only [keptDims] at h
      simp only [List.length_cons]
      by_cases hs : s = 1
      · simp only [hs, ne_eq, not_true_eq_false, if_false] at h
        have := keptDims_bounds (off + 1) l d h; omega
      · simp only [ne_eq, hs, not_false_eq_true, if_true, List.mem_cons] at h
        rcases h with rfl | h
        · omega
        · have := keptDims_bounds (off + 1) l d h; omega

theorem keptDims_sorted : ∀ (off : Int) (l : List (Option String × Nat)),
    (keptDims off l).Pairwise (· < ·)
  | _, [] => by simp [keptDims]
  | off, (none, s) :: l => by simpa [keptDims] using keptDims_sorted (off + 1) l
  | off, (some n, s) :: l => by
      simp only [keptDims]
      by_cases hs : s = 1
      · simpa [hs] using keptDims_sorted (off + 1) l
      · simp only [ne_eq, hs, not_false_eq_true, if_true, List.pairwise_cons]
        refine ⟨?_, keptDims_sorted (off + 1) l⟩
        intro d hd
        have := keptDims_bounds (off + 1) l d hd; omega

theorem keptDims_length : ∀ (off : Int) (l : List (Option String × Nat)),
    (keptDims off l).length = (packedSpec l).length
  | _, [] => rfl
  | off, (none, s) :: l => by simpa [keptDims, packedSpec] using keptDims_length (off + 1) l
  | off, (some n, s) :: l => by
      by_cases hs : s = 1
      · simpa [keptDims, packedSpec, hs] using keptDims_length (off + 1) l
      · simpa [keptDims, packedSpec, hs] using keptDims_length (off + 1) l

/-- `name_to_dim` sends the name on axis `j` to dim `off + j`. -/
def Consistent (n2d : List (String × Int)) (off : Int) (l : List (Option String × Nat)) : Prop :=
  ∀ (j : Nat) (n : String), (l[j]?).map (·.1) = some (some n) → lookup n n2d = some (off + j)

theorem consistent_tail (n2d : List (String × Int)) (off : Int) (p : Option String × Nat)
    (l : List (Option String × Nat)) (h : Consistent n2d off (p :: l)) :
    Consistent n2d (off + 1) l := by
  intro j n hj
  have := h (j + 1) n (by simpa using hj)
  rw [this]; congr 1; push_cast; omega

theorem mapM_lookup_packed (n2d : List (String × Int)) : ∀ (off : Int)
    (l : List (Option String × Nat)), Consistent n2d off l →
    ((packedSpec l).map (·.1)).mapM (fun k => lookup k n2d) = some (keptDims off l)
  | _, [], _ => rfl
  | off, (none, s) :: l, h => by
      simpa [packedSpec, keptDims] using mapM_lookup_packed n2d (off + 1) l (consistent_tail _ _ _ _ h)
  | off, (some n, s) :: l, h => by
      have ih := mapM_lookup_packed n2d (off + 1) l (consistent_tail _ _ _ _ h)
      by_cases hs : s = 1
      · simpa [packedSpec, keptDims, hs] using ih
      · have h0 : lookup n n2d = some off := by simpa using h 0 n (by simp)
        simp only [packedSpec, keptDims, ne_eq, hs, not_false_eq_true, if_true, List.map_cons,
          List.mapM_cons, h0, ih]
        rfl

theorem scatter_general : ∀ (l : List (Option String × Nat)) (pre : List Nat), AllNamed l →
    scatterDims ((keptDims (-(l.length : Int)) l).zip ((packedSpec l).map (·.2)))
      (pre ++ List.replicate l.length 1) = .ok (pre ++ l.map (·.2))
  | [], pre, _ => by simp [keptDims, packedSpec, scatterDims]
  | (none, s) :: l, pre, h => by
      have hs : s = 1 := h (none, s) (by simp) rfl
      have ih := scatter_general l (pre ++ [1]) (fun p hp => h p (by simp [hp]))
      have e : (-((l.length + 1 : Nat) : Int)) + 1 = -(l.length : Int) := by push_cast; omega
      simp only [keptDims, packedSpec, List.length_cons, e, List.replicate_succ, List.map_cons, hs]
      simpa using ih
  | (some n, s) :: l, pre, h => by
      have hl : AllNamed l := fun p hp => h p (by simp [hp])
      have e : (-((l.length + 1 : Nat) : Int)) + 1 = -(l.length : Int) := by push_cast; omega
      by_cases hs : s = 1
      · have ih := scatter_general l (pre ++ [1]) hl
        simp only [keptDims, packedSpec, List.length_cons, e, hs, ne_eq, not_true_eq_false, if_false,
          List.replicate_succ, List.map_cons]
        simpa using ih
      · have ih := scatter_general l (pre ++ [s]) hl
        simp only [keptDims, packedSpec, List.length_cons, e, ne_eq, hs, not_false_eq_true, if_true,
          List.map_cons, List.zip_cons_cons, scatterDims, setNeg]
        have c : (-((l.length + 1 : Nat) : Int)) < 0 ∧
            -(-((l.length + 1 : Nat) : Int)) ≤ ((pre ++ List.replicate (l.length + 1) 1).length : Int) := by
          simp only [List.length_append, List.length_replicate]; push_cast; omega
        rw [if_pos c]
        have hpos : (pre ++ List.replicate (l.length + 1) 1).length
            - (-(-((l.length + 1 : Nat) : Int))).toNat = pre.length := by
          simp only [List.length_append, List.length_replicate, Int.neg_neg, Int.toNat_natCast]; omega
        rw [hpos]
        have hset : (pre ++ List.replicate (l.length + 1) 1).set pre.length s
            = (pre ++ [s]) ++ List.replicate l.length 1 := by
          simp [List.replicate_succ]
        simp only [hset]
        simpa using ih

theorem scatter_top : ∀ (l : List (Option String × Nat)), AllNamed l →
    ∀ d0 rest, keptDims (-(l.length : Int)) l = d0 :: rest →
    ∃ k, k ≤ l.length ∧
      scatterDims ((keptDims (-(l.length : Int)) l).zip ((packedSpec l).map (·.2)))
        (List.replicate (-d0).toNat 1) = .ok ((l.map (·.2)).drop k) ∧
      ∀ s ∈ (l.map (·.2)).take k, s = 1
  | [], _, d0, rest, hk => by simp [keptDims] at hk
  | (none, s) :: l, h, d0, rest, hk => by
      have hs : s = 1 := h (none, s) (by simp) rfl
      have e : (-((l.length + 1 : Nat) : Int)) + 1 = -(l.length : Int) := by push_cast; omega
      simp only [keptDims, List.length_cons, e] at hk
      obtain ⟨k, hk1, hk2, hk3⟩ := scatter_top l (fun p hp => h p (by simp [hp])) d0 rest hk
      refine ⟨k + 1, by simp; omega, ?_, ?_⟩
      · simp only [keptDims, packedSpec, List.length_cons, e, List.map_cons, List.drop_succ_cons]
        exact hk2
      · intro s' hs'
        simp only [List.map_cons, List.take_succ_cons, List.mem_cons] at hs'
        rcases hs' with rfl | hs'
        · exact hs
        · exact hk3 s' hs'
  | (some n, s) :: l, h, d0, rest, hk => by
      have hl : AllNamed l := fun p hp => h p (by simp [hp])
      have e : (-((l.length + 1 : Nat) : Int)) + 1 = -(l.length : Int) := by push_cast; omega
      by_cases hs : s = 1
      · simp only [keptDims, List.length_cons, e, hs, ne_eq, not_true_eq_false, if_false] at hk
        obtain ⟨k, hk1, hk2, hk3⟩ := scatter_top l hl d0 rest hk
        refine ⟨k + 1, by simp; omega, ?_, ?_⟩
        · simp only [keptDims, packedSpec, List.length_cons, e, hs, ne_eq, not_true_eq_false,
            if_false, List.map_cons, List.drop_succ_cons]
          exact hk2
        · intro s' hs'
          simp only [List.map_cons, List.take_succ_cons, List.mem_cons] at hs'
          rcases hs' with rfl | hs'
          · exact hs
          · exact hk3 s' hs'
      · have hd0 : d0 = -((l.length + 1 : Nat) : Int) := by
          simp only [keptDims, List.length_cons, ne_eq, hs, not_false_eq_true, if_true,
            List.cons.injEq] at hk
          exact hk.1.symm
        refine ⟨0, by simp, ?_, by simp⟩
        have := scatter_general ((some n, s) :: l) [] h
        simp only [List.nil_append, List.length_cons] at this
        rw [hd0]
        simpa using this


/-- `tensor_to_data` unfolded along its success path. -/
theorem toData_steps (f : Tensor α) (n2d : List (String × Int)) (hne : n2d ≠ [])
    (hin : f.inputs ≠ []) (hneg : ∀ p ∈ n2d, p.2 < 0)
    (data1 : Arr α) (h1 : reshape f.data (f.sizes ++ f.outShape) = .ok data1)
    (unsorted : List Int) (h2 : f.keys.mapM (fun k => lookup k n2d) = some unsorted)
    (data2 : Arr α)
    (h3 : permute data1 ((sortInts unsorted).map (fun d => pos d unsorted)
      ++ List.range' (sortInts unsorted).length f.outShape.length) = .ok data2)
    (d0 : Int) (rest : List Int) (h4 : sortInts unsorted = d0 :: rest)
    (bshape : List Nat)
    (h5 : scatterDims ((sortInts unsorted).zip data2.shape) (List.replicate (-d0).toNat 1)
      = .ok bshape) :
    toData f (some n2d) = reshape data2 (bshape ++ f.outShape) := by
  have e1 : n2d.isEmpty = false := by cases n2d <;> simp_all
  have e2 : f.inputs.isEmpty = false := by cases hf : f.inputs <;> simp_all
  have e3 : (n2d.all fun p => decide (p.2 < 0)) = true := by
    rw [List.all_eq_true]; intro p hp; exact decide_eq_true (hneg p hp)
  unfold toData
  simp only [e1, e2, e3, Bool.or_self, Bool.false_eq_true, if_false, Bool.not_true, h1, h2, h3]
  rw [h4] at h5 ⊢
  dsimp only
  rw [h5]

def swapPairs (d : List (Int × String)) : List (String × Int) := d.map fun p => (p.2, p.1)

theorem lookup_mem {κ β : Type} [DecidableEq κ] (k : κ) (v : β) : ∀ (d : List (κ × β)),
    lookup k d = some v → (k, v) ∈ d
  | [], h => by simp [lookup] at h
  | (k', v') :: r, h => by
      simp only [lookup] at h
      by_cases hk : k' = k
      · simp only [hk, if_true, Option.some.injEq] at h; simp [hk, h]
      · simp only [hk, if_false] at h
        exact List.mem_cons_of_mem _ (lookup_mem k v r h)

theorem lookup_swap (k : Int) (v : String) : ∀ (d : List (Int × String)),
    (d.map (·.2)).Nodup → lookup k d = some v → lookup v (swapPairs d) = some k
  | [], _, h => by simp [lookup] at h
  | (k', v') :: r, hn, h => by
      simp only [List.map_cons, List.nodup_cons] at hn
      simp only [lookup] at h
      simp only [swapPairs, List.map_cons, lookup]
      by_cases hk : k' = k
      · simp only [hk, if_true, Option.some.injEq] at h; simp [hk, h]
      · simp only [hk, if_false] at h
        have hmem : v ∈ r.map (·.2) := List.mem_map_of_mem (f := (·.2)) (lookup_mem k v r h)
        have hv : v' ≠ v := fun e => hn.1 (e ▸ hmem)
        simp only [hv, if_false]
        exact lookup_swap k v r hn.2 h

theorem consistent_axisNames (d2n : List (Int × String)) (hinj : (d2n.map (·.2)).Nodup)
    (bs : List Nat) :
    Consistent (swapPairs d2n) (-(bs.length : Int)) ((axisNames d2n bs.length).zip bs) := by
  intro j n hj
  cases hz : ((axisNames d2n bs.length).zip bs)[j]? with
  | none => simp [hz] at hj
  | some z =>
    rw [hz] at hj
    simp only [Option.map_some, Option.some.injEq] at hj
    have := (List.getElem?_zip_eq_some.mp hz).1
    rw [hj] at this
    simp only [axisNames, List.getElem?_map] at this
    cases hr : (List.range bs.length)[j]? with
    | none => simp [hr] at this
    | some j' =>
      have hj' : j' = j := by
        obtain ⟨hlt, hv⟩ := List.getElem?_eq_some_iff.mp hr
        rw [List.getElem_range] at hv; exact hv.symm
      rw [hr, hj'] at this
      simp only [Option.map_some, Option.some.injEq] at this
      have := lookup_swap _ n d2n hinj this
      rw [this]; congr 1; omega

theorem packed_nil_all_one : ∀ (l : List (Option String × Nat)), AllNamed l → packedSpec l = [] →
    ∀ s ∈ l.map (·.2), s = 1
  | [], _, _ => by simp
  | (none, s) :: l, h, hp => by
      have hs : s = 1 := h (none, s) (by simp) rfl
      have ih := packed_nil_all_one l (fun p hp => h p (by simp [hp])) (by simpa [packedSpec] using hp)
      intro s' hs'
      simp only [List.map_cons, List.mem_cons] at hs'
      rcases hs' with rfl | hs'
      · exact hs
      · exact ih s' hs'
  | (some n, s) :: l, h, hp => by
      by_cases hs : s = 1
      · have ih := packed_nil_all_one l (fun p hp => h p (by simp [hp]))
          (by simpa [packedSpec, hs] using hp)
        intro s' hs'
        simp only [List.map_cons, List.mem_cons] at hs'
        rcases hs' with rfl | hs'
        · exact hs
        · exact ih s' hs'
      · simp [packedSpec, hs] at hp

theorem prod_drop_ones : ∀ (k : Nat) (l : List Nat), (∀ s ∈ l.take k, s = 1) →
    prod (l.drop k) = prod l
  | 0, l, _ => by simp
  | k + 1, [], _ => by simp
  | k + 1, a :: l, h => by
      have ha : a = 1 := h a (by simp)
      have ih := prod_drop_ones k l (fun s hs => h s (by simp [hs]))
      simp only [List.drop_succ_cons, prod, ha, Nat.one_mul, ih]

/-- `to_funsor` under the round-trip hypotheses, with its data exposed. -/
theorem toFunsor_ok (x : Arr α) (bs es : List Nat) (dtype : Option Nat)
    (d2n : List (Int × String)) (hd : d2n ≠ []) (hneg : ∀ p ∈ d2n, p.1 < 0)
    (hshape : x.shape = bs ++ es)
    (hnamed : AllNamed ((axisNames d2n bs.length).zip bs))
    (hnodup : ((packedSpec ((axisNames d2n bs.length).zip bs)).map (·.1)).Nodup) :
    ∃ data, reshape x ((packedSpec ((axisNames d2n bs.length).zip bs)).map (·.2) ++ es) = .ok data ∧
      toFunsor x (some es) dtype (some d2n)
        = .ok ⟨packedSpec ((axisNames d2n bs.length).zip bs), data, dtype⟩ := by
  have hlen : (axisNames d2n bs.length).length = bs.length := axisNames_length _ _
  have hnb : x.shape.length - es.length = bs.length := by simp [hshape]
  have hzip : (axisNames d2n bs.length).zip x.shape = (axisNames d2n bs.length).zip bs := by
    rw [hshape]; exact zip_append_right _ _ _ hlen
  have hsnd : ((axisNames d2n bs.length).zip bs).map (·.2) = bs := by
    rw [List.map_snd_zip]; omega
  generalize hl : (axisNames d2n bs.length).zip bs = l at *
  have hpack : packLoop l [] = packedSpec l := by
    have := packLoop_spec l [] (by simpa using hnodup); simpa using this
  have hprod := prod_packed es l hnamed
  rw [hsnd] at hprod
  rw [toFunsor_unfold x es dtype d2n hd hneg, hnb, hzip, hpack]
  simp only [reshape, hshape, hprod, if_true]
  exact ⟨_, rfl, rfl⟩

/-- **toData_toFunsor_roundtrip.**  For an injective, all-negative, non-empty `dim_to_name` that
    names every batch axis of size ≠ 1, `to_data(to_funsor(x, output, dim_to_name), inverse map)`
    succeeds and returns `x` up to leading size-1 batch axes: same row-major buffer, and the shape
    is `x.shape` with `k` leading 1s dropped. -/
theorem toData_toFunsor_roundtrip (x : Arr α) (bs es : List Nat) (dtype : Option Nat)
    (d2n : List (Int × String)) (hd : d2n ≠ []) (hneg : ∀ p ∈ d2n, p.1 < 0)
    (hinj : (d2n.map (·.2)).Nodup)
    (hshape : x.shape = bs ++ es)
    (hnamed : AllNamed ((axisNames d2n bs.length).zip bs))
    (hnodup : ((packedSpec ((axisNames d2n bs.length).zip bs)).map (·.1)).Nodup) :
    ∃ f r k, toFunsor x (some es) dtype (some d2n) = .ok f ∧
      toData f (some (swapPairs d2n)) = .ok r ∧
      k ≤ bs.length ∧ r.shape = (bs ++ es).drop k ∧ (∀ s ∈ bs.take k, s = 1) ∧
      IsReshapeOf r x ∧ r.toFlat = x.toFlat := by
  obtain ⟨data, hdata, hf⟩ := toFunsor_ok x bs es dtype d2n hd hneg hshape hnamed hnodup
  have hcons := consistent_axisNames d2n hinj bs
  have hlen : (axisNames d2n bs.length).length = bs.length := axisNames_length _ _
  have hsnd : ((axisNames d2n bs.length).zip bs).map (·.2) = bs := by
    rw [List.map_snd_zip]; omega
  have hll : ((axisNames d2n bs.length).zip bs).length = bs.length := by
    simp [List.length_zip, hlen]
  generalize hl : (axisNames d2n bs.length).zip bs = l at *
  obtain ⟨hdshape, hdre⟩ := reshape_isReshape _ _ _ hdata
  refine ⟨⟨packedSpec l, data, dtype⟩, ?_⟩
  by_cases hp : packedSpec l = []
  · -- nothing survives packing: to_data returns the data as is
    refine ⟨data, bs.length, hf, ?_, Nat.le_refl _, ?_, ?_, hdre, isReshape_toFlat _ _ hdre⟩
    · have e1 : (swapPairs d2n).isEmpty = false := by cases d2n <;> simp_all [swapPairs]
      simp [toData, e1, hp]
    · rw [hdshape, hp]; simp
    · have := packed_nil_all_one l hnamed hp
      rw [hsnd] at this
      simpa using this
  · -- general case
    have hkl := keptDims_length (-(bs.length : Int)) l
    cases hkd : keptDims (-(bs.length : Int)) l with
    | nil => rw [hkd] at hkl; cases hq : packedSpec l <;> simp_all
    | cons d0 rest =>
      have hsorted := sortInts_of_sorted _ (keptDims_sorted (-(bs.length : Int)) l)
      have hnd : (keptDims (-(bs.length : Int)) l).Nodup :=
        (keptDims_sorted (-(bs.length : Int)) l).imp (fun h => Int.ne_of_lt h)
      let f : Tensor α := ⟨packedSpec l, data, dtype⟩
      have hout : f.outShape = es := by
        simp only [f, Tensor.outShape, hdshape]
        exact List.drop_left' (by simp)
      have hsizes : f.sizes = (packedSpec l).map (·.2) := rfl
      -- step 1: the no-op reshape
      have h1 : ∃ data1, reshape f.data (f.sizes ++ f.outShape) = .ok data1 := by
        simp only [reshape, hout, hsizes, f, hdshape, if_true]; exact ⟨_, rfl⟩
      obtain ⟨data1, h1⟩ := h1
      obtain ⟨h1s, h1r⟩ := reshape_isReshape _ _ _ h1
      -- step 2: the dims
      have h2 : f.keys.mapM (fun k => lookup k (swapPairs d2n))
          = some (keptDims (-(bs.length : Int)) l) := by
        exact mapM_lookup_packed (swapPairs d2n) (-(bs.length : Int)) l hcons
      -- step 3: the permutation is the identity
      have hperm : (sortInts (keptDims (-(bs.length : Int)) l)).map
            (fun d => pos d (keptDims (-(bs.length : Int)) l))
          ++ List.range' (sortInts (keptDims (-(bs.length : Int)) l)).length f.outShape.length
          = List.range (f.sizes ++ f.outShape).length := by
        rw [hsorted, map_pos_self _ hnd, hkl, hout, hsizes]
        rw [List.range_eq_range', List.range_eq_range', List.length_append, List.length_map]
        have := @List.range'_append_1 0 (packedSpec l).length es.length
        simpa using this
      have h3 : ∃ data2, permute data1 (List.range data1.shape.length) = .ok data2 := by
        simp only [permute, isPerm_range, if_true]; exact ⟨_, rfl⟩
      obtain ⟨data2, h3⟩ := h3
      obtain ⟨h3s, h3r⟩ := permute_id_isReshape _ _ h3
      have h3' : permute data1 ((sortInts (keptDims (-(bs.length : Int)) l)).map
            (fun d => pos d (keptDims (-(bs.length : Int)) l))
          ++ List.range' (sortInts (keptDims (-(bs.length : Int)) l)).length f.outShape.length)
          = .ok data2 := by rw [hperm, ← h1s]; exact h3
      -- step 4: scattering the sizes into the batch shape
      have hkd' : keptDims (-(l.length : Int)) l = d0 :: rest := by rw [hll]; exact hkd
      obtain ⟨k, hk1, hk2, hk3⟩ := scatter_top l hnamed d0 rest hkd'
      rw [hll] at hk2 hk1
      rw [hsnd] at hk2 hk3
      have h4 : sortInts (keptDims (-(bs.length : Int)) l) = d0 :: rest := by rw [hsorted, hkd]
      have h5 : scatterDims ((sortInts (keptDims (-(bs.length : Int)) l)).zip data2.shape)
          (List.replicate (-d0).toNat 1) = .ok (bs.drop k) := by
        rw [hsorted, h3s, h1s, hsizes, hout, zip_append_right _ _ _ (by rw [hkl]; simp)]
        exact hk2
      -- step 5: the final reshape
      have hprodeq : prod (bs.drop k ++ f.outShape) = prod data2.shape := by
        rw [h3s, h1s, hsizes, hout, prod_append, prod_drop_ones k bs hk3, ← prod_append,
          prod_packed es l hnamed, hsnd]
      have h6 : ∃ r, reshape data2 (bs.drop k ++ f.outShape) = .ok r := by
        simp only [reshape, hprodeq, if_true]; exact ⟨_, rfl⟩
      obtain ⟨r, h6⟩ := h6
      obtain ⟨h6s, h6r⟩ := reshape_isReshape _ _ _ h6
      have hnegs : ∀ p ∈ swapPairs d2n, p.2 < 0 := by
        intro p hp
        simp only [swapPairs, List.mem_map] at hp
        obtain ⟨q, hq, rfl⟩ := hp
        exact hneg q hq
      have hne : swapPairs d2n ≠ [] := by cases d2n <;> simp_all [swapPairs]
      have hre : IsReshapeOf r x :=
        isReshape_trans _ _ _ hdre (isReshape_trans _ _ _ h1r (isReshape_trans _ _ _ h3r h6r))
      refine ⟨r, k, hf, ?_, hk1, ?_, hk3, hre, isReshape_toFlat _ _ hre⟩
      · rw [toData_steps f (swapPairs d2n) hne hp hnegs data1 h1 _ h2 data2 h3' d0 rest h4 _ h5]
        exact h6
      · rw [h6s, hout]; exact (List.drop_append_of_le_length hk1).symm


end FV.Props.C19
