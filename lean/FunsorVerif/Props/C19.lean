/-
  Props/C19.lean — conversions and re-alignment never move data to the wrong name.
  All theorems are for arrays of any rank and any sizes (induction on the shape), over the
  model in Model/C19.lean.
-/
import FunsorVerif.Model.C19
namespace FV.Props.C19
open FV.C19
variable {α : Type}

theorem inb_length : ∀ (s i : List Nat), inb s i = true → i.length = s.length
  | [], [], _ => rfl
  | [], _ :: _, h => by simp [inb] at h
  | _ :: _, [], h => by simp [inb] at h
  | s :: ss, i :: is, h => by
      simp only [inb, Bool.and_eq_true, decide_eq_true_eq] at h
      simp [inb_length ss is h.2]

theorem ravel_lt : ∀ (s i : List Nat), inb s i = true → ravel s i < prod s
  | [], [], _ => by simp [ravel, prod]
  | [], _ :: _, h => by simp [inb] at h
  | _ :: _, [], h => by simp [inb] at h
  | s :: ss, i :: is, h => by
      simp only [inb, Bool.and_eq_true, decide_eq_true_eq] at h
      have ih := ravel_lt ss is h.2
      simp only [ravel, prod]
      calc i * prod ss + ravel ss is < i * prod ss + prod ss := by omega
        _ = (i + 1) * prod ss := by rw [Nat.add_mul, Nat.one_mul]
        _ ≤ s * prod ss := Nat.mul_le_mul_right _ h.1

theorem unravel_ravel : ∀ (s i : List Nat), inb s i = true → unravel s (ravel s i) = i
  | [], [], _ => rfl
  | [], _ :: _, h => by simp [inb] at h
  | _ :: _, [], h => by simp [inb] at h
  | s :: ss, i :: is, h => by
      simp only [inb, Bool.and_eq_true, decide_eq_true_eq] at h
      have ih := unravel_ravel ss is h.2
      have hlt := ravel_lt ss is h.2
      have hpos : 0 < prod ss := by omega
      simp only [ravel, unravel]
      have h1 : (i * prod ss + ravel ss is) / prod ss = i := by
        rw [Nat.mul_comm, Nat.mul_add_div hpos, Nat.div_eq_of_lt hlt, Nat.add_zero]
      have h2 : (i * prod ss + ravel ss is) % prod ss = ravel ss is := by
        rw [Nat.mul_comm, Nat.mul_add_mod, Nat.mod_eq_of_lt hlt]
      rw [h1, h2, ih]

theorem inb_unravel : ∀ (s : List Nat) (k : Nat), k < prod s → inb s (unravel s k) = true
  | [], _, _ => rfl
  | s :: ss, k, h => by
      simp only [prod] at h
      have hpos : 0 < prod ss := by
        rcases Nat.eq_zero_or_pos (prod ss) with h0 | h0
        · rw [h0] at h; omega
        · exact h0
      simp only [unravel, inb, Bool.and_eq_true, decide_eq_true_eq]
      refine ⟨?_, inb_unravel ss _ (Nat.mod_lt _ hpos)⟩
      rw [Nat.div_lt_iff_lt_mul hpos]; exact h

theorem ravel_unravel : ∀ (s : List Nat) (k : Nat), k < prod s → ravel s (unravel s k) = k
  | [], k, h => by simp [prod] at h; simp [ravel, h]
  | s :: ss, k, h => by
      simp only [prod] at h
      have hpos : 0 < prod ss := by
        rcases Nat.eq_zero_or_pos (prod ss) with h0 | h0
        · rw [h0] at h; omega
        · exact h0
      simp only [unravel, ravel]
      rw [ravel_unravel ss _ (Nat.mod_lt _ hpos)]
      exact Nat.div_add_mod' k (prod ss)


/-! ### tensor_to_funsor -/

/-- Spec of the packed inputs: the named batch axes of size ≠ 1, in axis order. -/
def packedSpec : List (Option String × Nat) → Inputs
  | [] => []
  | (some n, s) :: l => if s ≠ 1 then (n, s) :: packedSpec l else packedSpec l
  | (none, _) :: l => packedSpec l

/-- The batch index of `x` that the named point `env` denotes (squeezed axes read at 0). -/
def bidx (env : String → Nat) : List (Option String × Nat) → List Nat
  | [] => []
  | (some n, s) :: l => (if s ≠ 1 then env n else 0) :: bidx env l
  | (none, _) :: l => 0 :: bidx env l

/-- Every batch axis of size ≠ 1 is named (decidable). -/
def AllNamed (l : List (Option String × Nat)) : Prop := ∀ p ∈ l, p.1 = none → p.2 = 1

theorem oset_append (acc : Inputs) (k : String) (v : Nat) (h : k ∉ acc.map (·.1)) :
    oset acc k v = acc ++ [(k, v)] := by
  induction acc with
  | nil => rfl
  | cons p acc ih =>
    obtain ⟨k', v'⟩ := p
    simp only [List.map_cons, List.mem_cons, not_or] at h
    simp only [oset]
    rw [if_neg (fun e => h.1 e.symm), ih h.2]; rfl

theorem packLoop_spec : ∀ (l : List (Option String × Nat)) (acc : Inputs),
    ((acc ++ packedSpec l).map (·.1)).Nodup → packLoop l acc = acc ++ packedSpec l
  | [], acc, _ => by simp [packLoop, packedSpec]
  | (none, s) :: l, acc, h => by
      simp only [packLoop, packedSpec] at h ⊢; exact packLoop_spec l acc h
  | (some n, s) :: l, acc, h => by
      simp only [packLoop, packedSpec] at h ⊢
      by_cases hs : s = 1
      · simp only [hs, ne_eq, not_true_eq_false, if_false] at h ⊢; exact packLoop_spec l acc h
      · simp only [ne_eq, hs, not_false_eq_true, if_true] at h ⊢
        have hn : n ∉ acc.map (·.1) := by
          intro hmem
          simp only [List.map_append, List.map_cons, List.nodup_append] at h
          exact h.2.2 n hmem n (by simp) rfl
        rw [oset_append acc n s hn, packLoop_spec l _ (by simpa using h)]
        simp

theorem prod_packed (es : List Nat) : ∀ (l : List (Option String × Nat)), AllNamed l →
    prod ((packedSpec l).map (·.2) ++ es) = prod (l.map (·.2) ++ es)
  | [], _ => rfl
  | (none, s) :: l, h => by
      have hs : s = 1 := h (none, s) (by simp) rfl
      have ih := prod_packed es l (fun p hp => h p (by simp [hp]))
      simp only [packedSpec, List.map_cons, List.cons_append, prod, hs, Nat.one_mul]; exact ih
  | (some n, s) :: l, h => by
      have ih := prod_packed es l (fun p hp => h p (by simp [hp]))
      by_cases hs : s = 1
      · simp only [packedSpec, hs, ne_eq, not_true_eq_false, if_false, List.map_cons,
          List.cons_append, prod, Nat.one_mul]; exact ih
      · simp only [packedSpec, ne_eq, hs, not_false_eq_true, if_true, List.map_cons,
          List.cons_append, prod, ih]

theorem ravel_packed (env : String → Nat) (es ev : List Nat) :
    ∀ (l : List (Option String × Nat)), AllNamed l →
    ravel ((packedSpec l).map (·.2) ++ es) ((packedSpec l).map (fun p => env p.1) ++ ev)
      = ravel (l.map (·.2) ++ es) (bidx env l ++ ev)
  | [], _ => rfl
  | (none, s) :: l, h => by
      have ih := ravel_packed env es ev l (fun p hp => h p (by simp [hp]))
      simp only [packedSpec, bidx, List.map_cons, List.cons_append, ravel, Nat.zero_mul,
        Nat.zero_add]; exact ih
  | (some n, s) :: l, h => by
      have hl : AllNamed l := fun p hp => h p (by simp [hp])
      have ih := ravel_packed env es ev l hl
      by_cases hs : s = 1
      · simp only [packedSpec, bidx, hs, ne_eq, not_true_eq_false, if_false, List.map_cons,
          List.cons_append, ravel, Nat.zero_mul, Nat.zero_add]; exact ih
      · simp only [packedSpec, bidx, ne_eq, hs, not_false_eq_true, if_true, List.map_cons,
          List.cons_append, ravel, ih, prod_packed es l hl]

theorem inb_append : ∀ (s i t j : List Nat), inb s i = true → inb t j = true →
    inb (s ++ t) (i ++ j) = true
  | [], [], _, _, _, h => h
  | [], _ :: _, _, _, h, _ => by simp [inb] at h
  | _ :: _, [], _, _, h, _ => by simp [inb] at h
  | s :: ss, i :: is, t, j, h, h2 => by
      simp only [inb, Bool.and_eq_true, decide_eq_true_eq, List.cons_append] at h ⊢
      exact ⟨h.1, inb_append ss is t j h.2 h2⟩

theorem inb_bidx (env : String → Nat) : ∀ (l : List (Option String × Nat)), AllNamed l →
    (∀ p ∈ packedSpec l, env p.1 < p.2) → inb (l.map (·.2)) (bidx env l) = true
  | [], _, _ => rfl
  | (none, s) :: l, h, he => by
      have hs : s = 1 := h (none, s) (by simp) rfl
      simp only [List.map_cons, bidx, inb, hs, Bool.and_eq_true, decide_eq_true_eq]
      exact ⟨by omega, inb_bidx env l (fun p hp => h p (by simp [hp])) (by simpa [packedSpec] using he)⟩
  | (some n, s) :: l, h, he => by
      have hl : AllNamed l := fun p hp => h p (by simp [hp])
      by_cases hs : s = 1
      · simp only [packedSpec, hs, ne_eq, not_true_eq_false, if_false] at he
        simp only [List.map_cons, bidx, inb, hs, ne_eq, not_true_eq_false, if_false,
          Bool.and_eq_true, decide_eq_true_eq]
        exact ⟨by omega, inb_bidx env l hl he⟩
      · simp only [packedSpec, ne_eq, hs, not_false_eq_true, if_true, List.mem_cons,
          forall_eq_or_imp] at he
        simp only [List.map_cons, bidx, inb, ne_eq, hs, not_false_eq_true, if_true,
          Bool.and_eq_true, decide_eq_true_eq]
        exact ⟨he.1, inb_bidx env l hl he.2⟩


theorem zip_append_right {β γ : Type} : ∀ (as : List β) (bs cs : List γ), as.length = bs.length →
    as.zip (bs ++ cs) = as.zip bs
  | [], _, _, _ => by simp
  | a :: as, [], _, h => by simp at h
  | a :: as, b :: bs, cs, h => by
      simp only [List.cons_append, List.zip_cons_cons, List.cons.injEq, true_and]
      exact zip_append_right as bs cs (by simpa using h)

theorem axisNames_length (d2n : List (Int × String)) (nb : Nat) :
    (axisNames d2n nb).length = nb := by simp [axisNames]

/-- `to_funsor(x, output, dim_to_name)` with a non-empty all-negative `dim_to_name`, unfolded. -/
theorem toFunsor_unfold (x : Arr α) (es : List Nat) (dtype : Option Nat)
    (d2n : List (Int × String)) (hd : d2n ≠ []) (hneg : ∀ p ∈ d2n, p.1 < 0) :
    toFunsor x (some es) dtype (some d2n) =
      match reshape x ((packLoop ((axisNames d2n (x.shape.length - es.length)).zip x.shape) []).map
          (·.2) ++ es) with
      | .ok data => .ok ⟨packLoop ((axisNames d2n (x.shape.length - es.length)).zip x.shape) [],
          data, dtype⟩
      | .error e => .error e := by
  cases d2n with
  | nil => exact absurd rfl hd
  | cons e d =>
    have : ((e :: d).all fun p => decide (p.1 < 0)) = true := by
      rw [List.all_eq_true]; intro p hp; exact decide_eq_true (hneg p hp)
    simp only [toFunsor, this, Bool.not_true, Bool.false_eq_true, if_false]
    rfl

/-- **toFunsor_sem.**  If every batch axis of size ≠ 1 is named (and the names used are distinct),
    `to_funsor` succeeds, its inputs are exactly the named non-trivial axes in axis order, and the
    value at every named point is the array entry at the corresponding index. -/
theorem toFunsor_sem (x : Arr α) (bs es : List Nat) (dtype : Option Nat)
    (d2n : List (Int × String)) (hd : d2n ≠ []) (hneg : ∀ p ∈ d2n, p.1 < 0)
    (hshape : x.shape = bs ++ es)
    (hnamed : AllNamed ((axisNames d2n bs.length).zip bs))
    (hnodup : ((packedSpec ((axisNames d2n bs.length).zip bs)).map (·.1)).Nodup) :
    ∃ f, toFunsor x (some es) dtype (some d2n) = .ok f ∧
      f.inputs = packedSpec ((axisNames d2n bs.length).zip bs) ∧ f.dtype = dtype ∧
      f.data.shape = f.sizes ++ es ∧
      ∀ env ev, (∀ p ∈ f.inputs, env p.1 < p.2) → inb es ev = true →
        f.atEnv env ev = x.get (bidx env ((axisNames d2n bs.length).zip bs) ++ ev) := by
  have hlen : (axisNames d2n bs.length).length = bs.length := axisNames_length _ _
  have hnb : x.shape.length - es.length = bs.length := by simp [hshape]
  have hzip : (axisNames d2n bs.length).zip x.shape = (axisNames d2n bs.length).zip bs := by
    rw [hshape]; exact zip_append_right _ _ _ hlen
  have hsnd : ((axisNames d2n bs.length).zip bs).map (·.2) = bs := by
    rw [List.map_snd_zip]; omega
  generalize hl : (axisNames d2n bs.length).zip bs = l at *
  have hpack : packLoop l [] = packedSpec l := by
    have := packLoop_spec l [] (by simpa using hnodup); simpa using this
  have hprod := prod_packed es l hnamed
  rw [hsnd] at hprod
  rw [toFunsor_unfold x es dtype d2n hd hneg, hnb, hzip, hpack]
  simp only [reshape, hshape, hprod, if_true]
  refine ⟨_, rfl, rfl, rfl, rfl, ?_⟩
  intro env ev henv hev
  simp only [Tensor.atEnv, Tensor.keys, List.map_map, Function.comp_def]
  have hr := ravel_packed env es ev l hnamed
  rw [hsnd] at hr
  rw [hr]
  have hin : inb (bs ++ es) (bidx env l ++ ev) = true := by
    have := inb_bidx env l hnamed henv
    rw [hsnd] at this
    exact inb_append _ _ _ _ this hev
  rw [unravel_ravel _ _ hin]


/-! ### the rejection branch -/

theorem prod_append : ∀ (a b : List Nat), prod (a ++ b) = prod a * prod b
  | [], b => by simp [prod]
  | x :: a, b => by simp only [List.cons_append, prod, prod_append a b, Nat.mul_assoc]

theorem prod_pos : ∀ (a : List Nat), (∀ s ∈ a, 0 < s) → 0 < prod a
  | [], _ => by simp [prod]
  | x :: a, h => by
      simp only [prod]
      exact Nat.mul_pos (h x (by simp)) (prod_pos a (fun s hs => h s (by simp [hs])))

theorem prod_oset_le : ∀ (acc : Inputs) (n : String) (s : Nat), (∀ p ∈ acc, 0 < p.2) → 0 < s →
    prod ((oset acc n s).map (·.2)) ≤ prod (acc.map (·.2)) * s ∧ (∀ p ∈ oset acc n s, 0 < p.2)
  | [], n, s, _, hs => by simp [oset, prod, hs]
  | (k', v') :: acc, n, s, h, hs => by
      have hv : 0 < v' := h (k', v') (by simp)
      have hacc : ∀ p ∈ acc, 0 < p.2 := fun p hp => h p (by simp [hp])
      simp only [oset]
      by_cases hk : k' = n
      · simp only [hk, if_true, List.map_cons, prod]
        refine ⟨?_, ?_⟩
        · calc s * prod (acc.map (·.2)) ≤ s * (v' * prod (acc.map (·.2))) :=
                Nat.mul_le_mul_left _ (Nat.le_mul_of_pos_left _ hv)
            _ = v' * prod (acc.map (·.2)) * s := Nat.mul_comm _ _
        · intro p hp
          simp only [List.mem_cons] at hp
          rcases hp with rfl | hp
          · exact hs
          · exact hacc p hp
      · have ih := prod_oset_le acc n s hacc hs
        simp only [hk, if_false, List.map_cons, prod]
        refine ⟨?_, ?_⟩
        · calc v' * prod ((oset acc n s).map (·.2)) ≤ v' * (prod (acc.map (·.2)) * s) :=
                Nat.mul_le_mul_left _ ih.1
            _ = v' * prod (acc.map (·.2)) * s := (Nat.mul_assoc _ _ _).symm
        · intro p hp
          simp only [List.mem_cons] at hp
          rcases hp with rfl | hp
          · exact hv
          · exact ih.2 p hp

theorem prod_packLoop_le : ∀ (l : List (Option String × Nat)) (acc : Inputs),
    (∀ p ∈ acc, 0 < p.2) → (∀ p ∈ l, 0 < p.2) →
    prod ((packLoop l acc).map (·.2)) ≤ prod (acc.map (·.2)) * prod (l.map (·.2))
  | [], acc, _, _ => by simp [packLoop, prod]
  | (none, s) :: l, acc, ha, hl => by
      have hs : 0 < s := hl (none, s) (by simp)
      have ih := prod_packLoop_le l acc ha (fun p hp => hl p (by simp [hp]))
      simp only [packLoop, List.map_cons, prod]
      calc _ ≤ prod (acc.map (·.2)) * prod (l.map (·.2)) := ih
        _ ≤ prod (acc.map (·.2)) * (s * prod (l.map (·.2))) :=
            Nat.mul_le_mul_left _ (Nat.le_mul_of_pos_left _ hs)
  | (some n, s) :: l, acc, ha, hl => by
      have hs : 0 < s := hl (some n, s) (by simp)
      have hl' : ∀ p ∈ l, 0 < p.2 := fun p hp => hl p (by simp [hp])
      simp only [packLoop, List.map_cons, prod]
      by_cases h1 : s = 1
      · simp only [h1, ne_eq, not_true_eq_false, if_false, Nat.one_mul]
        exact prod_packLoop_le l acc ha hl'
      · simp only [ne_eq, h1, not_false_eq_true, if_true]
        have ho := prod_oset_le acc n s ha hs
        calc _ ≤ prod ((oset acc n s).map (·.2)) * prod (l.map (·.2)) :=
              prod_packLoop_le l _ ho.2 hl'
          _ ≤ prod (acc.map (·.2)) * s * prod (l.map (·.2)) := Nat.mul_le_mul_right _ ho.1
          _ = prod (acc.map (·.2)) * (s * prod (l.map (·.2))) := Nat.mul_assoc _ _ _

theorem prod_packLoop_lt : ∀ (l : List (Option String × Nat)) (acc : Inputs),
    (∀ p ∈ acc, 0 < p.2) → (∀ p ∈ l, 0 < p.2) → ¬ AllNamed l →
    prod ((packLoop l acc).map (·.2)) < prod (acc.map (·.2)) * prod (l.map (·.2))
  | [], acc, _, _, hn => absurd (fun _ hp => by simp at hp) hn
  | (none, s) :: l, acc, ha, hl, hn => by
      have hs : 0 < s := hl (none, s) (by simp)
      have hl' : ∀ p ∈ l, 0 < p.2 := fun p hp => hl p (by simp [hp])
      have hle := prod_packLoop_le l acc ha hl'
      have hpa : 0 < prod (acc.map (·.2)) :=
        prod_pos _ (by intro s hs; simp only [List.mem_map] at hs; obtain ⟨p, hp, rfl⟩ := hs; exact ha p hp)
      have hpl : 0 < prod (l.map (·.2)) :=
        prod_pos _ (by intro s hs; simp only [List.mem_map] at hs; obtain ⟨p, hp, rfl⟩ := hs; exact hl' p hp)
      simp only [packLoop, List.map_cons, prod]
      by_cases h1 : s = 1
      · -- this axis is fine; the offending one is further right
        have hn' : ¬ AllNamed l := by
          intro hall; apply hn; intro p hp
          simp only [List.mem_cons] at hp
          rcases hp with rfl | hp
          · intro _; exact h1
          · exact hall p hp
        simp only [h1, Nat.one_mul]
        exact prod_packLoop_lt l acc ha hl' hn'
      · have h2 : 2 ≤ s := by omega
        calc _ ≤ prod (acc.map (·.2)) * prod (l.map (·.2)) := hle
          _ < prod (acc.map (·.2)) * (s * prod (l.map (·.2))) := by
              apply Nat.mul_lt_mul_of_pos_left _ hpa
              calc prod (l.map (·.2)) = 1 * prod (l.map (·.2)) := (Nat.one_mul _).symm
                _ < s * prod (l.map (·.2)) := Nat.mul_lt_mul_of_pos_right (by omega) hpl
  | (some n, s) :: l, acc, ha, hl, hn => by
      have hs : 0 < s := hl (some n, s) (by simp)
      have hl' : ∀ p ∈ l, 0 < p.2 := fun p hp => hl p (by simp [hp])
      have hn' : ¬ AllNamed l := by
        intro hall; apply hn; intro p hp
        simp only [List.mem_cons] at hp
        rcases hp with rfl | hp
        · intro h; simp at h
        · exact hall p hp
      simp only [packLoop, List.map_cons, prod]
      by_cases h1 : s = 1
      · simp only [h1, ne_eq, not_true_eq_false, if_false, Nat.one_mul]
        exact prod_packLoop_lt l acc ha hl' hn'
      · simp only [ne_eq, h1, not_false_eq_true, if_true]
        have ho := prod_oset_le acc n s ha hs
        have hpl : 0 < prod (l.map (·.2)) :=
          prod_pos _ (by intro s hs; simp only [List.mem_map] at hs; obtain ⟨p, hp, rfl⟩ := hs; exact hl' p hp)
        calc _ < prod ((oset acc n s).map (·.2)) * prod (l.map (·.2)) :=
              prod_packLoop_lt l _ ho.2 hl' hn'
          _ ≤ prod (acc.map (·.2)) * s * prod (l.map (·.2)) := Nat.mul_le_mul_right _ ho.1
          _ = prod (acc.map (·.2)) * (s * prod (l.map (·.2))) := Nat.mul_assoc _ _ _

/-- **toFunsor_rejects_unnamed.**  With positive sizes, a batch axis of size ≠ 1 that has no name
    makes `to_funsor` raise `ValueError` (whatever else `dim_to_name` contains, duplicates
    included): nothing is ever silently folded into a neighbouring axis. -/
theorem toFunsor_rejects_unnamed (x : Arr α) (bs es : List Nat) (dtype : Option Nat)
    (d2n : List (Int × String)) (hd : d2n ≠ []) (hneg : ∀ p ∈ d2n, p.1 < 0)
    (hshape : x.shape = bs ++ es) (hpos : ∀ s ∈ bs ++ es, 0 < s)
    (hun : ¬ AllNamed ((axisNames d2n bs.length).zip bs)) :
    toFunsor x (some es) dtype (some d2n) = .error .valueError := by
  have hlen : (axisNames d2n bs.length).length = bs.length := axisNames_length _ _
  have hnb : x.shape.length - es.length = bs.length := by simp [hshape]
  have hzip : (axisNames d2n bs.length).zip x.shape = (axisNames d2n bs.length).zip bs := by
    rw [hshape]; exact zip_append_right _ _ _ hlen
  have hsnd : ((axisNames d2n bs.length).zip bs).map (·.2) = bs := by
    rw [List.map_snd_zip]; omega
  generalize hl : (axisNames d2n bs.length).zip bs = l at *
  have hlpos : ∀ p ∈ l, 0 < p.2 := by
    intro p hp
    have : p.2 ∈ l.map (·.2) := List.mem_map_of_mem hp
    rw [hsnd] at this
    exact hpos _ (by simp [this])
  have hlt := prod_packLoop_lt l [] (by simp) hlpos hun
  rw [hsnd] at hlt
  simp only [List.map_nil, prod, Nat.one_mul] at hlt
  have hes : 0 < prod es := prod_pos _ (fun s hs => hpos s (by simp [hs]))
  rw [toFunsor_unfold x es dtype d2n hd hneg, hnb, hzip]
  have hne : prod ((packLoop l []).map (·.2) ++ es) ≠ prod x.shape := by
    rw [hshape, prod_append, prod_append]
    exact Nat.ne_of_lt (Nat.mul_lt_mul_of_pos_right hlt hes)
  simp only [reshape, hne, if_false]


end FV.Props.C19
