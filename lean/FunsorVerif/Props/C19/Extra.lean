/-
  Props/C19/Extra.lean — deepening of C19 (conversions and re-alignment).

    alignT_lazy_classify        `x.align(names)` on a lazy non-tensor term under ANY number of `Align`
                                wrappers, for ANY `names` among its inputs (empty, partial, full set):
                                the exact result term
    alignT_partial_lazy_full    full form of `alignT_partial_lazy`: hypothesis `names ≠ []` removed and
                                the class hypothesis widened from {Variable, Binary} to these under any
                                stack of `Align` wrappers (all wrappers are dropped)
    alignT_total                `x.align(names)` never declines on a lazy term with OK leaves when
                                `names` are distinct inputs of `x` (Tensor, Align, Contraction, …)
    alignT_preserves            … hence succeeds AND keeps the value at every named point and the key set
    madeOp_operand_sem          `madeOp_operand_sem_partial` with `x.inputs ≠ []` removed
    madeOp_sem_full             `madeOp_sem` with BOTH `x.inputs ≠ []` and `y.inputs ≠ []` removed
                                (operand_padded_gen, madeOp_sem_gen, madeOp_sem_consts)
    toData_align_invariant      `to_data(x.align(names), name_to_dim)` = `to_data(x, name_to_dim)`: same shape,
                                same entry at every index (layout depends on name_to_dim only)
    align_roundtrip             `x.align(names).align(tuple(x.inputs))`: `.inputs` restored exactly and
                                the value at every named point preserved
-/
import FunsorVerif.Props.C19
namespace FV.Props.C19
open FV.C19

variable {α : Type}

/-! ### lazy alignment: every `names`, every stack of wrappers -/

/-- Variable / lazy Binary, under any number of `Align` wrappers. -/
def IsLazyCore : LTerm α → Prop
  | .var _ _ => True
  | .binary _ _ _ => True
  | .align t _ => IsLazyCore t
  | _ => False

/-- Drop the outer `Align` wrappers. -/
def stripAlign : LTerm α → LTerm α
  | .align t _ => stripAlign t
  | t => t

theorem keyset_stripAlign : ∀ (u : LTerm α) (a : String), a ∈ (stripAlign u).keys ↔ a ∈ u.keys
  | .var _ _, _ => Iff.rfl
  | .tensor _, _ => Iff.rfl
  | .binary _ _ _, _ => Iff.rfl
  | .contract _ _ _ _ _, _ => Iff.rfl
  | .align t old, a => by
      rw [keyset_align]; exact keyset_stripAlign t a

theorem sameSet_congr (names a b : List String) (h : ∀ x, x ∈ a ↔ x ∈ b) :
    sameSet names a = sameSet names b := by
  rw [Bool.eq_iff_iff, sameSet_iff, sameSet_iff]
  exact ⟨fun g x => (g x).trans (h x), fun g x => (g x).trans (h x).symm⟩

/-- What `Funsor.align` returns on a core term `c`, as a function of `names`. -/
def lazyAlignResult (c : LTerm α) (names : List String) : LTerm α :=
  if names.isEmpty || decide (names = c.keys) || !sameSet names c.keys then c else .align c names

theorem funsorAlign_classify (c : LTerm α) (names : List String) (hsub : ∀ n ∈ names, n ∈ c.keys) :
    funsorAlign c names = some (lazyAlignResult c names) := by
  have hall : (names.all fun n => decide (n ∈ c.keys)) = true := by
    rw [List.all_eq_true]; intro n hn; exact decide_eq_true (hsub n hn)
  unfold funsorAlign mkAlign lazyAlignResult
  by_cases h1 : (names.isEmpty || decide (names = c.keys)) = true
  · simp only [h1, if_true, Bool.true_or]
  · simp only [h1, hall, Bool.not_true, Bool.false_eq_true, if_false, Bool.false_or]
    cases hs : sameSet names c.keys <;> simp

/-- **alignT_lazy_classify.**  For a Variable or lazy Binary under any stack of `Align` wrappers and
    ANY tuple `names` of its inputs: `x.align(names)` is the bare core term when `names` is empty,
    is already the core's order, or is not the full set of names; otherwise it is exactly one
    `Align(core, names)` — never a wrapper around a wrapper. -/
theorem alignT_lazy_classify : ∀ (u : LTerm α) (names : List String), IsLazyCore u →
    (∀ n ∈ names, n ∈ u.keys) → u.alignT names = some (lazyAlignResult (stripAlign u) names)
  | .var n s, names, _, hsub => by
      simp only [LTerm.alignT, stripAlign]; exact funsorAlign_classify _ names hsub
  | .binary op l r, names, _, hsub => by
      simp only [LTerm.alignT, stripAlign]; exact funsorAlign_classify _ names hsub
  | .align t old, names, hu, hsub => by
      simp only [LTerm.alignT, stripAlign]
      exact alignT_lazy_classify t names hu (fun n hn => (keyset_align t old n).mp (hsub n hn))
  | .tensor _, _, hu, _ => absurd hu (by simp [IsLazyCore])
  | .contract _ _ _ _ _, _, hu, _ => absurd hu (by simp [IsLazyCore])

/-- **alignT_partial_lazy_full.**  Full form of `alignT_partial_lazy`.  Removed: the hypothesis
    `names ≠ []`; widened: the term may carry any number of `Align` wrappers (then ALL of them are
    dropped, so the order of `.inputs` is that of the core term). -/
theorem alignT_partial_lazy_full (u : LTerm α) (names : List String) (hu : IsLazyCore u)
    (hsub : ∀ n ∈ names, n ∈ u.keys) (hns : ¬ ∀ x, x ∈ names ↔ x ∈ u.keys) :
    u.alignT names = some (stripAlign u) := by
  rw [alignT_lazy_classify u names hu hsub]
  have hss : sameSet names (stripAlign u).keys = false := by
    cases hc : sameSet names (stripAlign u).keys with
    | false => rfl
    | true =>
      exact absurd (fun x => ((sameSet_iff _ _).mp hc x).trans (keyset_stripAlign u x)) hns
  simp [lazyAlignResult, hss]

/-- The value at every named point is that of the original term in every case of the classification. -/
theorem stripAlign_denote (ofNat : Nat → α) (ops : Nat → α → α → α) (red : Nat → List α → α) :
    ∀ (u : LTerm α) (env : String → Nat),
      (stripAlign u).denote ofNat ops red env = u.denote ofNat ops red env
  | .var _ _, _ => rfl
  | .tensor _, _ => rfl
  | .binary _ _ _, _ => rfl
  | .contract _ _ _ _ _, _ => rfl
  | .align t _, env => by
      simp only [stripAlign, LTerm.denote]; exact stripAlign_denote ofNat ops red t env

/-! ### `align` never declines on distinct names among the inputs -/

theorem mkAlign_total (c : LTerm α) (names : List String) (hsub : ∀ n ∈ names, n ∈ c.keys) :
    ∃ t', mkAlign c names = some t' := by
  have hall : (names.all fun n => decide (n ∈ c.keys)) = true := by
    rw [List.all_eq_true]; intro n hn; exact decide_eq_true (hsub n hn)
  unfold mkAlign
  simp only [hall, Bool.not_true, Bool.false_eq_true, if_false]
  split <;> exact ⟨_, rfl⟩

/-- **alignT_total.**  For every lazy term with well-formed, distinctly named, scalar tensor leaves
    and every tuple of distinct names among its inputs, `x.align(names)` returns a term (no
    assertion fails anywhere down the recursion: `Tensor.align`, `Align.align`, `Contraction.align`
    re-aligning both operands with the filtered names and wrapping the result). -/
theorem alignT_total : ∀ (t : LTerm α) (names : List String), LeavesOK t → names.Nodup →
    (∀ n ∈ names, n ∈ t.keys) → ∃ t', t.alignT names = some t'
  | .var n s, names, _, _, hsub => ⟨_, funsorAlign_classify (.var n s) names hsub⟩
  | .binary op l r, names, _, _, hsub => ⟨_, funsorAlign_classify (.binary op l r) names hsub⟩
  | .tensor t, names, hok, hn, hsub => by
      obtain ⟨t3, h3, _⟩ := align_sem t names hok.1 hok.2.1 hn hsub
      exact ⟨.tensor t3, by simp only [LTerm.alignT, h3]⟩
  | .align u old, names, hok, hn, hsub => by
      simp only [LTerm.alignT]
      exact alignT_total u names hok hn (fun n h => (keyset_align u old n).mp (hsub n h))
  | .contract rop bop rv l r, names, hok, hn, hsub => by
      have hall : (names.all fun n => decide (n ∈ (LTerm.contract rop bop rv l r).keys)) = true := by
        rw [List.all_eq_true]; intro n h; exact decide_eq_true (hsub n h)
      have hnl := hn.sublist (List.filter_sublist (p := fun n => decide (n ∈ l.keys)))
      have hnr := hn.sublist (List.filter_sublist (p := fun n => decide (n ∈ r.keys)))
      obtain ⟨l', hl⟩ := alignT_total l (names.filter (· ∈ l.keys)) hok.1 hnl
        (fun n h => by simpa using (List.mem_filter.mp h).2)
      obtain ⟨r', hr⟩ := alignT_total r (names.filter (· ∈ r.keys)) hok.2 hnr
        (fun n h => by simpa using (List.mem_filter.mp h).2)
      obtain ⟨_, hls⟩ := alignT_keyset l _ l' hok.1 hnl hl
      obtain ⟨_, hrs⟩ := alignT_keyset r _ r' hok.2 hnr hr
      simp only [LTerm.alignT, hall, Bool.not_true, Bool.false_eq_true, if_false, hl, hr]
      split
      · exact ⟨_, rfl⟩
      · apply mkAlign_total
        intro n h
        rw [keyset_contract, hls n, hrs n, ← keyset_contract]
        exact hsub n h

/-- **alignT_preserves.**  `x.align(names)` on a lazy term — with NO assumption that it succeeds —
    returns a term with the same set of inputs and the same value at every named point. -/
theorem alignT_preserves (ofNat : Nat → α) (ops : Nat → α → α → α) (red : Nat → List α → α)
    (t : LTerm α) (names : List String) (hok : LeavesOK t) (hn : names.Nodup)
    (hsub : ∀ n ∈ names, n ∈ t.keys) :
    ∃ t', t.alignT names = some t' ∧ (∀ a, a ∈ t'.keys ↔ a ∈ t.keys) ∧ t'.keys.Nodup ∧
      ∀ env, t'.denote ofNat ops red env = t.denote ofNat ops red env := by
  obtain ⟨t', h⟩ := alignT_total t names hok hn hsub
  obtain ⟨hk, hs⟩ := alignT_keyset t names t' hok hn h
  exact ⟨t', h, hs, keys_nodup t' hk, alignT_denote ofNat ops red t names t' hok hn h⟩

/-! ### make_op: the raw operand, operands without inputs included -/

/-- **madeOp_operand_sem.**  `madeOp_operand_sem_partial` with the hypothesis `x.inputs ≠ []`
    removed: the raw array handed to the op always exists; for an operand without inputs it is the
    operand's data itself (its value at every named point, whatever the point), otherwise at every
    in-bounds index it holds the operand's value at the named point that index denotes. -/
theorem madeOp_operand_sem (args : List (Tensor α)) (x : Tensor α) (hx : x ∈ args)
    (hwf : x.WF) (hK : x.keys.Nodup) :
    ∃ r, toData x (some (madeDims args)) = .ok r ∧
      (x.inputs = [] → r = x.data ∧ ∀ env ev, r.get ev = x.atEnv env ev) ∧
      (x.inputs ≠ [] → ∃ U d0 rest bshape,
        x.keys.mapM (fun k => lookup k (madeDims args)) = some U ∧ U.Nodup ∧
        sortInts U = d0 :: rest ∧ r.shape = bshape ++ x.outShape ∧ bshape.length = (-d0).toNat ∧
        ∀ bidx ev, inb bshape bidx = true → inb x.outShape ev = true →
          r.get (bidx ++ ev) = x.data.get (U.map (fun d => bidx.getD (d - d0).toNat 0) ++ ev)) := by
  by_cases hin : x.inputs = []
  · refine ⟨x.data, ?_, fun _ => ⟨rfl, fun env ev => ?_⟩, fun h => absurd hin h⟩
    · simp [toData, hin]
    · simp [Tensor.atEnv, Tensor.keys, hin]
  · obtain ⟨U, r, d0, rest, bshape, h1, h2, h3, h4, h5, h6, h7⟩ :=
      madeOp_operand_sem_partial args x hx hwf hK hin
    exact ⟨r, h4, fun h => absurd h hin, fun _ => ⟨U, d0, rest, bshape, h1, h2, h3, h5, h6, h7⟩⟩

/-! ### align there and back -/

theorem inputs_eq_of_keys : ∀ (a b : Inputs), a.map (·.1) = b.map (·.1) → (a.map (·.1)).Nodup →
    (∀ p, p ∈ a → p ∈ b) → a = b
  | [], [], _, _, _ => rfl
  | [], _ :: _, h, _, _ => by simp at h
  | _ :: _, [], h, _, _ => by simp at h
  | (k, v) :: a, (k', w) :: b, h, hn, hm => by
      simp only [List.map_cons, List.cons.injEq] at h
      obtain ⟨rfl, ht⟩ := h
      simp only [List.map_cons, List.nodup_cons] at hn
      have hv : v = w := by
        have := hm (k, v) (by simp)
        simp only [List.mem_cons, Prod.mk.injEq, true_and] at this
        rcases this with e | e
        · exact e
        · exact absurd (ht ▸ List.mem_map_of_mem (f := (·.1)) e) hn.1
      subst hv
      congr 1
      apply inputs_eq_of_keys a b ht hn.2
      intro p hp
      have := hm p (by simp [hp])
      simp only [List.mem_cons] at this
      rcases this with e | e
      · subst e; exact absurd (List.mem_map_of_mem (f := (·.1)) hp) hn.1
      · exact e

/-- **align_roundtrip.**  Re-aligning a tensor to any tuple of distinct names and then back to its
    original name order — `x.align(names).align(tuple(x.inputs))` — succeeds, restores `.inputs`
    exactly (names, order and sizes), and the value at every named point and event index is that
    of `x` (the two transpositions of `.data` cancel pointwise). -/
theorem align_roundtrip (t : Tensor α) (names : List String) (hwf : t.WF) (hK : t.keys.Nodup)
    (hnames : names.Nodup) (hsub : ∀ n ∈ names, n ∈ t.keys) :
    ∃ t1 t2, t.align names = .ok t1 ∧ t1.align t.keys = .ok t2 ∧ t2.inputs = t.inputs ∧
      t2.dtype = t.dtype ∧
      ∀ env ev, ev.length = t.outShape.length →
        t2.data.get (t.keys.map env ++ ev) = t.data.get (t.keys.map env ++ ev) := by
  obtain ⟨t1, h1, hk1, hm1, hd1, hs1, hv1⟩ := align_sem t names hwf hK hnames hsub
  have ho1 : t1.outShape = t.outShape := by
    show t1.data.shape.drop t1.inputs.length = t.outShape
    rw [hs1]
    have : t1.inputs.length = t1.sizes.length := by simp [Tensor.sizes]
    rw [this]; simp
  have hwf1 : t1.WF := by unfold Tensor.WF; rw [ho1]; exact hs1
  have hK1 : t1.keys.Nodup := by
    rw [hk1, List.nodup_append]
    refine ⟨hnames, hK.sublist List.filter_sublist, ?_⟩
    intro a ha' b hb
    simp only [List.mem_filter, decide_eq_true_eq] at hb
    rintro rfl; exact hb.2 ha'
  have hsub1 : ∀ n ∈ t.keys, n ∈ t1.keys := by
    intro n hn
    simp only [Tensor.keys, List.mem_map] at hn ⊢
    obtain ⟨p, hp, rfl⟩ := hn
    exact ⟨p, (hm1 p).mpr hp, rfl⟩
  obtain ⟨t2, h2, hk2, hm2, hd2, _, hv2⟩ := align_sem t1 t.keys hwf1 hK1 hK hsub1
  have hk2' : t2.keys = t.keys := by
    rw [hk2]
    have : t1.keys.filter (fun k => decide (k ∉ t.keys)) = [] := by
      rw [List.filter_eq_nil_iff]
      intro a ha
      simp only [Tensor.keys, List.mem_map] at ha
      obtain ⟨p, hp, rfl⟩ := ha
      have : p.1 ∈ t.keys := List.mem_map_of_mem (f := (·.1)) ((hm1 p).mp hp)
      simp [this]
    rw [this, List.append_nil]
  have hin : t2.inputs = t.inputs := by
    apply inputs_eq_of_keys
    · exact hk2'
    · show t2.keys.Nodup; rw [hk2']; exact hK
    · intro p hp; exact (hm1 p).mp ((hm2 p).mp hp)
  refine ⟨t1, t2, h1, h2, hin, by rw [hd2, hd1], ?_⟩
  intro env ev hev
  have e2 := hv2 env ev (by rw [ho1]; exact hev)
  have e1 := hv1 env ev hev
  simp only [Tensor.atEnv] at e1 e2
  rw [hk2'] at e2
  rw [e2, e1]

/-! ### hypotheses are satisfiable -/

def exLazy : LTerm Nat :=
  .align (.align (.binary 0 (.var "a" 2) (.binary 1 (.var "b" 3) (.var "c" 2))) ["c", "b", "a"]) ["b", "c", "a"]

/-- `alignT_partial_lazy_full` / `alignT_lazy_classify`: a doubly wrapped Binary, partial names. -/
example : IsLazyCore exLazy ∧ (∀ n ∈ ["c"], n ∈ exLazy.keys) ∧
    ¬ (∀ x, x ∈ ["c"] ↔ x ∈ exLazy.keys) := by
  refine ⟨by simp [exLazy, IsLazyCore], by decide, ?_⟩
  intro h; have := (h "a").mpr (by decide); simp at this

example : (match exLazy.alignT ["c"] with | some t => t.keys | none => []) = ["a", "b", "c"] ∧
    (match exLazy.alignT [] with | some t => t.keys | none => []) = ["a", "b", "c"] ∧
    (match exLazy.alignT ["c", "a", "b"] with | some t => t.keys | none => []) = ["c", "a", "b"] := by
  decide

/-- `alignT_total` / `alignT_preserves`: a Contraction of two tensors, partial names. -/
def exContr : LTerm Nat := .contract 0 1 [("b", 3)]
  (.tensor ⟨[("a", 2), ("b", 3)], ⟨[2, 3], fun idx => ravel [2, 3] idx⟩, none⟩)
  (.tensor ⟨[("b", 3), ("c", 2)], ⟨[3, 2], fun idx => ravel [3, 2] idx⟩, none⟩)

example : LeavesOK exContr ∧ ["c"].Nodup ∧ ∀ n ∈ ["c"], n ∈ exContr.keys := by
  refine ⟨⟨⟨?_, ?_, ?_⟩, ⟨?_, ?_, ?_⟩⟩, by decide, by decide⟩ <;>
    first | (unfold Tensor.WF; decide) | decide

/-- `madeOp_operand_sem`: an operand without inputs next to one with inputs. -/
example : (⟨[], ⟨[], fun _ => (7 : Int)⟩, none⟩ : Tensor Int) ∈
      [(⟨[], ⟨[], fun _ => (7 : Int)⟩, none⟩ : Tensor Int), exMX] ∧
    (⟨[], ⟨[], fun _ => (7 : Int)⟩, none⟩ : Tensor Int).WF ∧
    (⟨[], ⟨[], fun _ => (7 : Int)⟩, none⟩ : Tensor Int).keys.Nodup := by
  refine ⟨by simp, by unfold Tensor.WF; decide, by decide⟩

/-- `align_roundtrip` on `exT` (a:3, b:2) through (b, a). -/
example : exT.WF ∧ exT.keys.Nodup ∧ ["b"].Nodup ∧ ∀ n ∈ ["b"], n ∈ exT.keys := by
  refine ⟨by unfold Tensor.WF; decide, by decide, by decide, by decide⟩

example : (match exT.align ["b"] with
    | .ok t1 => (match t1.align exT.keys with
      | .ok t2 => (t2.inputs, t2.data.shape, t2.data.toFlat)
      | .error _ => ([], [], []))
    | .error _ => ([], [], [])) = (exT.inputs, exT.data.shape, exT.data.toFlat) := by
  decide

/-! ### make_op: `madeOp_sem` without the non-empty-inputs hypotheses

  `madeOp_sem` (Props/C19.lean) assumes `x.inputs ≠ []` and `y.inputs ≠ []`.  Below both are
  removed: `operand_padded_gen` is `operand_padded` for any operand (an operand without inputs is
  passed through by `to_data` and numpy pads it with size-1 axes only), `madeOp_sem_gen` needs one
  operand with inputs, `madeOp_sem_consts` is the case of two input-free operands (empty
  `name_to_dim`, `to_funsor` with an empty `dim_to_name`), and `madeOp_sem_full` joins them. -/

theorem prod_replicate_one : ∀ n : Nat, prod (List.replicate n 1) = 1
  | 0 => rfl
  | n + 1 => by simp [List.replicate_succ, prod, prod_replicate_one n]

theorem operand_padded_gen (x : Tensor α) (n2d : List (String × Int)) (hwf : x.WF)
    (hneg : ∀ p ∈ n2d, p.2 < 0) (hout : x.outShape = [])
    (U : List Int) (hU : x.keys.mapM (fun k => lookup k n2d) = some U) (hinj : U.Nodup) :
    ∃ a, toData x (some n2d) = .ok a ∧ ∀ n, a.shape.length ≤ n →
      ∃ a', padLeft a n = .ok a' ∧
        a'.shape = (List.range n).map (sigmaAx (sortInts U) (sizeAt U x.sizes) n) ∧
        ∀ g : Int → Nat, (∀ d ∈ U, g d < sizeAt U x.sizes d) →
          a'.get ((List.range n).map (idxAx (sortInts U) g n)) = x.data.get (U.map g) := by
  by_cases hin : x.inputs = []
  · have hU' : U = [] := by
      simp [Tensor.keys, hin] at hU; exact hU
    subst hU'
    have hsh : x.data.shape = [] := by
      rw [hwf, hout]; simp [Tensor.sizes, hin]
    refine ⟨x.data, by simp [toData, hin], ?_⟩
    intro n _
    refine ⟨⟨List.replicate n 1, fun idx => x.data.get (unravel x.data.shape (ravel (List.replicate n 1) idx))⟩, ?_, ?_, ?_⟩
    · simp [padLeft, reshape, hsh, prod_replicate_one, prod]
    · show List.replicate n 1 = _
      symm; rw [List.eq_replicate_iff]
      refine ⟨by simp, ?_⟩
      intro b hb
      simp only [List.mem_map] at hb
      obtain ⟨j, _, rfl⟩ := hb
      simp [sigmaAx, sortInts]
    · intro g _
      show x.data.get (unravel x.data.shape _) = _
      rw [hsh]; rfl
  · obtain ⟨a, d0, rest, _, ha, hal, hpa⟩ := operand_padded x n2d hwf hin hneg hout U hU hinj
    exact ⟨a, ha, fun n hn => hpa n (by rw [← hal]; exact hn)⟩

theorem madeOp_sem_gen (sz : String → Nat) (f : α → α → α) (x y : Tensor α)
    (hx : TensorOK sz x) (hy : TensorOK sz y) (hne : x.inputs ≠ [] ∨ y.inputs ≠ []) :
    ∃ t, madeOp2 f x y = .ok t ∧
      ∀ env, (∀ n, env n < sz n) → t.atEnv env [] = f (x.atEnv env []) (y.atEnv env []) := by
  obtain ⟨hxw, hxk, hxs, hxo⟩ := hx
  obtain ⟨hyw, hyk, hys, hyo⟩ := hy
  obtain ⟨hv, hneg, hkn, hall⟩ := madeDims_ok [x, y]
  generalize hn2d : madeDims [x, y] = n2d at *
  obtain ⟨Ux, hUx, hUxn, _⟩ := mapM_lookup_nodup n2d hv hkn x.keys hxk (hall x (by simp))
  obtain ⟨Uy, hUy, hUyn, _⟩ := mapM_lookup_nodup n2d hv hkn y.keys hyk (hall y (by simp))
  obtain ⟨a, ha, hpa⟩ := operand_padded_gen x n2d hxw hneg hxo Ux hUx hUxn
  obtain ⟨b, hb, hpb⟩ := operand_padded_gen y n2d hyw hneg hyo Uy hUy hUyn
  generalize hn : max a.shape.length b.shape.length = n
  obtain ⟨a', hpa', has, hav⟩ := hpa n (by rw [← hn]; exact Nat.le_max_left _ _)
  obtain ⟨b', hpb', hbs, hbv⟩ := hpb n (by rw [← hn]; exact Nat.le_max_right _ _)
  generalize hd2n : (n2d.map fun p => (p.2, p.1)) = d2n at *
  have hLx := fun env => operand_dims sz x n2d hv hxs Ux hUx hUxn env
  have hLy := fun env => operand_dims sz y n2d hv hys Uy hUy hUyn env
  rw [hd2n] at hLx hLy
  have hmx : ∀ d, d ∈ sortInts Ux ↔ d ∈ Ux := fun d => mem_sortInts d Ux
  have hmy : ∀ d, d ∈ sortInts Uy ↔ d ∈ Uy := fun d => mem_sortInts d Uy
  generalize hhx : sizeAt Ux x.sizes = hX at *
  generalize hhy : sizeAt Uy y.sizes = hY at *
  -- the broadcast shape
  let σ : Nat → Nat := fun j => if sigmaAx (sortInts Ux) hX n j = 1 then sigmaAx (sortInts Uy) hY n j
    else sigmaAx (sortInts Ux) hX n j
  have hcompat : ∀ j : Nat, sigmaAx (sortInts Ux) hX n j = sigmaAx (sortInts Uy) hY n j ∨
      sigmaAx (sortInts Ux) hX n j = 1 ∨ sigmaAx (sortInts Uy) hY n j = 1 := by
    intro j
    by_cases h1 : (j : Int) - (n : Int) ∈ sortInts Ux
    · by_cases h2 : (j : Int) - (n : Int) ∈ sortInts Uy
      · obtain ⟨k1, hk1, hs1, _⟩ := (hLx (fun _ => 0)).2 _ ((hmx _).mp h1)
        obtain ⟨k2, hk2, hs2, _⟩ := (hLy (fun _ => 0)).2 _ ((hmy _).mp h2)
        rw [hk1] at hk2
        left; simp only [sigmaAx, h1, h2, if_true, hs1, hs2, Option.some.inj hk2]
      · right; right; simp [sigmaAx, h2]
    · right; left; simp [sigmaAx, h1]
  have hbsh : bshape2 a'.shape b'.shape = some ((List.range n).map σ) := by
    rw [has, hbs]; exact bshape2_map _ _ _ (fun j _ => hcompat j)
  -- unfold the rule up to to_funsor
  have hd2nne : d2n ≠ [] := by
    rw [← hd2n]
    have key : ∀ z : Tensor α, z ∈ [x, y] → z.inputs ≠ [] → n2d.map (fun p => (p.2, p.1)) ≠ [] := by
      intro z hz hzi
      cases hk : z.inputs with
      | nil => exact absurd hk hzi
      | cons p ps =>
        have := hall z hz p.1 (by simp [Tensor.keys, hk])
        cases hnn : n2d with
        | nil => rw [hnn] at this; simp at this
        | cons q qs => simp
    rcases hne with h | h
    · exact key x (by simp) h
    · exact key y (by simp) h
  have hd2nneg : ∀ p ∈ d2n, p.1 < 0 := by
    intro p hp; rw [← hd2n] at hp
    simp only [List.mem_map] at hp
    obtain ⟨q, hq, rfl⟩ := hp
    exact hneg q hq
  have hd2ninj : (d2n.map (·.2)).Nodup := by
    rw [← hd2n, List.map_map]; exact hkn
  let data : Arr α := ⟨(List.range n).map σ,
    fun idx => f (a'.get (clip a'.shape idx)) (b'.get (clip b'.shape idx))⟩
  have hbc : bcast2 f a b = .ok data := by
    simp only [bcast2, hn, hpa', hpb', hbsh]; rfl
  have hlist : (axisNames d2n ((List.range n).map σ).length).zip ((List.range n).map σ)
      = (List.range n).map (fun (j : Nat) => (lookup ((j : Int) - (n : Int)) d2n, σ j)) := by
    simp only [List.length_map, List.length_range, axisNames]
    exact zip_map_same _ _ _
  -- every non-trivial axis is named, with its size
  have hσname : ∀ j, σ j ≠ 1 → ∃ k, lookup ((j : Int) - (n : Int)) d2n = some k ∧ σ j = sz k := by
    intro j hj
    by_cases h1 : sigmaAx (sortInts Ux) hX n j = 1
    · have hσj : σ j = sigmaAx (sortInts Uy) hY n j := by simp only [σ, h1, if_true]
      rw [hσj] at hj ⊢
      by_cases h2 : (j : Int) - (n : Int) ∈ sortInts Uy
      · obtain ⟨k, hk, hs, _⟩ := (hLy (fun _ => 0)).2 _ ((hmy _).mp h2)
        exact ⟨k, hk, by simp [sigmaAx, h2, hs]⟩
      · simp [sigmaAx, h2] at hj
    · have hσj : σ j = sigmaAx (sortInts Ux) hX n j := by simp only [σ, h1, if_false]
      rw [hσj]
      by_cases h2 : (j : Int) - (n : Int) ∈ sortInts Ux
      · obtain ⟨k, hk, hs, _⟩ := (hLx (fun _ => 0)).2 _ ((hmx _).mp h2)
        exact ⟨k, hk, by simp [sigmaAx, h2, hs]⟩
      · simp [sigmaAx, h2] at h1
  have hnamed : AllNamed ((axisNames d2n ((List.range n).map σ).length).zip ((List.range n).map σ)) := by
    rw [hlist]
    intro p hp hnone
    simp only [List.mem_map, List.mem_range] at hp
    obtain ⟨j, _, rfl⟩ := hp
    by_cases h1 : σ j = 1
    · exact h1
    · obtain ⟨k, hk, _⟩ := hσname j h1
      simp only at hnone; rw [hk] at hnone; cases hnone
  obtain ⟨t, ht, hti, _, _, hsem⟩ := toFunsor_sem data ((List.range n).map σ) [] none d2n hd2nne hd2nneg
    (by simp [data]) hnamed
    (packed_nodup_of_consistent _ _ _ (consistent_axisNames d2n hd2ninj _))
  refine ⟨t, ?_, ?_⟩
  · simp only [madeOp2, hn2d, Bool.false_eq_true, if_false, ha, hb, hbc, hd2n]
    exact ht
  · intro env henv
    have hbnd : ∀ p ∈ t.inputs, env p.1 < p.2 := by
      intro p hp
      rw [hti, hlist] at hp
      obtain ⟨j, _, hj, hne⟩ := packed_map_mem _ _ p hp
      simp only [Prod.mk.injEq] at hj
      obtain ⟨k, hk, hs⟩ := hσname j (by rw [hj.2]; exact hne)
      rw [hj.1] at hk
      rw [← hj.2, hs, ← Option.some.inj hk]; exact henv _
    have := hsem env [] hbnd rfl
    rw [List.append_nil, hlist, bidx_eq_map, List.map_map] at this
    rw [this]
    show f (a'.get (clip a'.shape _)) (b'.get (clip b'.shape _)) = _
    have cx := clip_operand sz d2n env henv (sortInts Ux) hX n σ
      (fun j h1 => by simp only [σ, h1, if_false])
      (fun d hd => (hLx env).2 d ((hmx d).mp hd))
    have cy := clip_operand sz d2n env henv (sortInts Uy) hY n σ
      (fun j h1 => by
        by_cases h0 : sigmaAx (sortInts Ux) hX n j = 1
        · simp only [σ, h0, if_true]
        · rcases hcompat j with h2 | h2 | h2
          · simp only [σ, h2]; split <;> rfl
          · exact absurd h2 h0
          · exact absurd h2 h1)
      (fun d hd => (hLy env).2 d ((hmy d).mp hd))
    simp only [Function.comp_def] at cx cy ⊢
    rw [has, hbs, cx, cy,
      hav (dimVal d2n env) (bounded_of_maps Ux x.inputs _ hX env
        (by rw [(hLx env).1]; simp [Tensor.keys]) (by rw [← hhx]; exact map_sizeAt Ux x.sizes hUxn (by
          have := mapM_some_length _ _ _ hUx; simpa [Tensor.keys, Tensor.sizes] using this))
        (fun p hp => by rw [hxs p hp]; exact henv _)),
      hbv (dimVal d2n env) (bounded_of_maps Uy y.inputs _ hY env
        (by rw [(hLy env).1]; simp [Tensor.keys]) (by rw [← hhy]; exact map_sizeAt Uy y.sizes hUyn (by
          have := mapM_some_length _ _ _ hUy; simpa [Tensor.keys, Tensor.sizes] using this))
        (fun p hp => by rw [hys p hp]; exact henv _)),
      (hLx env).1, (hLy env).1]
    simp [Tensor.atEnv]

/-- Two operands without inputs: the rule's `name_to_dim` is empty and the result has no inputs. -/
theorem madeOp_sem_consts (f : α → α → α) (x y : Tensor α)
    (hxi : x.inputs = []) (hyi : y.inputs = []) (hxs : x.data.shape = []) (hys : y.data.shape = []) :
    ∃ t, madeOp2 f x y = .ok t ∧ t.inputs = [] ∧
      ∀ env, t.atEnv env [] = f (x.atEnv env []) (y.atEnv env []) := by
  obtain ⟨xi, ⟨xs, xg⟩, xd⟩ := x
  obtain ⟨yi, ⟨ys, yg⟩, yd⟩ := y
  simp only at hxi hyi hxs hys
  subst hxi hyi hxs hys
  refine ⟨_, by simp [madeOp2, madeDims, toData, bcast2, padLeft, reshape, bshape2, toFunsor, Tensor.keys, prod]; rfl, ?_, ?_⟩
  · rfl
  · intro env; rfl

/-- **madeOp_sem_full.**  `madeOp_sem` with BOTH hypotheses `x.inputs ≠ []`, `y.inputs ≠ []`
    removed: for any two well-formed scalar operands with consistent sizes (with or without
    inputs) the make_op rule succeeds and its value at every named point is `f` of the operands'
    values at that point. -/
theorem madeOp_sem_full (sz : String → Nat) (f : α → α → α) (x y : Tensor α)
    (hx : TensorOK sz x) (hy : TensorOK sz y) :
    ∃ t, madeOp2 f x y = .ok t ∧
      ∀ env, (∀ n, env n < sz n) → t.atEnv env [] = f (x.atEnv env []) (y.atEnv env []) := by
  by_cases hne : x.inputs ≠ [] ∨ y.inputs ≠ []
  · exact madeOp_sem_gen sz f x y hx hy hne
  · have hxi : x.inputs = [] := Classical.byContradiction fun h => hne (Or.inl h)
    have hyi : y.inputs = [] := Classical.byContradiction fun h => hne (Or.inr h)
    have hxs : x.data.shape = [] := by rw [hx.1, hx.2.2.2]; simp [Tensor.sizes, hxi]
    have hys : y.data.shape = [] := by rw [hy.1, hy.2.2.2]; simp [Tensor.sizes, hyi]
    obtain ⟨t, ht, _, hv⟩ := madeOp_sem_consts f x y hxi hyi hxs hys
    exact ⟨t, ht, fun env _ => hv env⟩

/-- `madeOp_sem_full`: an input-free operand next to `exMX` (a:2, b:2), and two input-free ones. -/
def exC : Tensor Int := ⟨[], ⟨[], fun _ => 7⟩, none⟩

example : TensorOK (fun _ => 2) exC ∧ TensorOK (fun _ => 2) exMX := by
  refine ⟨⟨?_, ?_, ?_, ?_⟩, ⟨?_, ?_, ?_, ?_⟩⟩ <;>
    first | (unfold Tensor.WF; decide) | (unfold SizedI; decide) | decide

example : (match madeOp2 (fun p q => p - 2 * q) exC exMX with
      | .ok t => (t.inputs, t.data.toFlat) | .error _ => ([], []))
      = ([("a", 2), ("b", 2)], [7 - 2 * 0, 7 - 2 * 1, 7 - 2 * 2, 7 - 2 * 3]) ∧
    (match madeOp2 (fun p q => p - 2 * q) exC exC with
      | .ok t => (t.inputs, t.data.toFlat) | .error _ => ([("?", 0)], []))
      = ([], [7 - 2 * 7]) := by decide


/-! ### to_data after align: the layout depends on `name_to_dim` only -/

theorem mapM_eq_map {β γ : Type} (f : β → Option γ) (dflt : γ) : ∀ (l : List β) (r : List γ),
    l.mapM f = some r → r = l.map (fun k => (f k).getD dflt)
  | [], r, h => by simp at h; simp [← h]
  | a :: l, r, h => by
      rw [List.mapM_cons] at h
      cases hf : f a with
      | none => simp [hf] at h
      | some b =>
        cases hm : l.mapM f with
        | none => simp [hf, hm] at h
        | some r' =>
          simp only [hf, hm] at h
          have : r = b :: r' := by cases h; rfl
          rw [this, mapM_eq_map f dflt l r' hm]; simp [hf]

/-- The head of a strictly sorted list is its least element; two such lists with the same
    members have the same head. -/
theorem sorted_head_eq (a b : Int) (as bs : List Int) (ha : (a :: as).Pairwise (· < ·))
    (hb : (b :: bs).Pairwise (· < ·)) (hm : ∀ d, d ∈ a :: as ↔ d ∈ b :: bs) : a = b := by
  simp only [List.pairwise_cons] at ha hb
  have h1 : b ≤ a := by
    have := (hm a).mp (by simp)
    simp only [List.mem_cons] at this
    rcases this with e | e
    · omega
    · have := hb.1 a e; omega
  have h2 : a ≤ b := by
    have := (hm b).mpr (by simp)
    simp only [List.mem_cons] at this
    rcases this with e | e
    · omega
    · have := ha.1 b e; omega
  omega

/-- Index-level core of `toData_align_invariant` (entries agree wherever both arrays are in
    bounds); the shape equality is added in `toData_align_invariant` below. -/
theorem toData_align_invariant_idx (t : Tensor α) (names : List String) (n2d : List (String × Int))
    (hwf : t.WF) (hK : t.keys.Nodup) (hnames : names.Nodup) (hsub : ∀ n ∈ names, n ∈ t.keys)
    (hin : t.inputs ≠ []) (hneg : ∀ p ∈ n2d, p.2 < 0) (hv : (n2d.map (·.2)).Nodup)
    (hkn : (n2d.map (·.1)).Nodup) (hall : ∀ k ∈ t.keys, k ∈ n2d.map (·.1)) :
    ∃ t1 r r1 bshape bshape1, t.align names = .ok t1 ∧ toData t (some n2d) = .ok r ∧
      toData t1 (some n2d) = .ok r1 ∧ r.shape = bshape ++ t.outShape ∧
      r1.shape = bshape1 ++ t.outShape ∧ bshape1.length = bshape.length ∧
      ∀ bidx ev, inb bshape bidx = true → inb bshape1 bidx = true → inb t.outShape ev = true →
        r1.get (bidx ++ ev) = r.get (bidx ++ ev) := by
  obtain ⟨t1, h1, hk1, hm1, hd1, hs1, hv1⟩ := align_sem t names hwf hK hnames hsub
  have ho1 : t1.outShape = t.outShape := by
    show t1.data.shape.drop t1.inputs.length = t.outShape
    rw [hs1]
    have : t1.inputs.length = t1.sizes.length := by simp [Tensor.sizes]
    rw [this]; simp
  have hwf1 : t1.WF := by unfold Tensor.WF; rw [ho1]; exact hs1
  have hK1 : t1.keys.Nodup := by
    rw [hk1, List.nodup_append]
    refine ⟨hnames, hK.sublist List.filter_sublist, ?_⟩
    intro a ha' b hb
    simp only [List.mem_filter, decide_eq_true_eq] at hb
    rintro rfl; exact hb.2 ha'
  have hkeys : ∀ n, n ∈ t1.keys ↔ n ∈ t.keys := by
    intro n
    simp only [Tensor.keys, List.mem_map]
    constructor
    · rintro ⟨p, hp, rfl⟩; exact ⟨p, (hm1 p).mp hp, rfl⟩
    · rintro ⟨p, hp, rfl⟩; exact ⟨p, (hm1 p).mpr hp, rfl⟩
  have hin1 : t1.inputs ≠ [] := by
    intro h
    cases hk : t.inputs with
    | nil => exact hin hk
    | cons p ps =>
      have := (hm1 p).mpr (by simp [hk])
      rw [h] at this; simp at this
  obtain ⟨U, hU, hUn, _⟩ := mapM_lookup_nodup n2d hv hkn t.keys hK hall
  obtain ⟨U1, hU1, hU1n, _⟩ := mapM_lookup_nodup n2d hv hkn t1.keys hK1
    (fun k hk => hall k ((hkeys k).mp hk))
  obtain ⟨r, d0, rest, bshape, hS, hr, hrs, hbl, hrv⟩ := toData_sem_idx t n2d hwf hin hneg U hU hUn
  obtain ⟨r1, d1, rest1, bshape1, hS1, hr1, hrs1, hbl1, hrv1⟩ :=
    toData_sem_idx t1 n2d hwf1 hin1 hneg U1 hU1 hU1n
  have eU := mapM_eq_map _ (0 : Int) _ _ hU
  have eU1 := mapM_eq_map _ (0 : Int) _ _ hU1
  have hmem : ∀ d, d ∈ U1 ↔ d ∈ U := by
    intro d
    rw [eU, eU1]
    simp only [List.mem_map]
    constructor
    · rintro ⟨k, hk, rfl⟩; exact ⟨k, (hkeys k).mp hk, rfl⟩
    · rintro ⟨k, hk, rfl⟩; exact ⟨k, (hkeys k).mpr hk, rfl⟩
  have hd : d1 = d0 := by
    have s0 := sortInts_sorted U hUn
    have s1 := sortInts_sorted U1 hU1n
    rw [hS] at s0; rw [hS1] at s1
    apply sorted_head_eq d1 d0 rest1 rest s1 s0
    intro d
    rw [← hS, ← hS1, mem_sortInts, mem_sortInts]; exact hmem d
  subst hd
  refine ⟨t1, r, r1, bshape, bshape1, h1, hr, hr1, hrs, by rw [hrs1, ho1], by rw [hbl, hbl1], ?_⟩
  intro bidx ev hb hb1 hev
  rw [hrv bidx ev hb hev, hrv1 bidx ev hb1 (by rw [ho1]; exact hev)]
  have e := hv1 (fun k => bidx.getD (((lookup k n2d).getD 0) - d1).toNat 0) ev
    (by
      have := inb_length _ _ hev; exact this)
  simp only [Tensor.atEnv] at e
  rw [eU, eU1, List.map_map, List.map_map]
  exact e

theorem inb_split : ∀ (s t i : List Nat), inb (s ++ t) i = true →
    inb s (i.take s.length) = true ∧ inb t (i.drop s.length) = true
  | [], t, i, h => by simpa [inb] using h
  | a :: s, t, [], h => by simp [inb] at h
  | a :: s, t, j :: i, h => by
      simp only [List.cons_append, inb, Bool.and_eq_true, decide_eq_true_eq] at h
      have ih := inb_split s t i h.2
      simp only [List.length_cons, List.take_succ_cons, List.drop_succ_cons, inb, Bool.and_eq_true,
        decide_eq_true_eq]
      exact ⟨⟨h.1, ih.1⟩, ih.2⟩

theorem buildAx_congr_h (h h' g : Int → Nat) : ∀ (n : Nat) (off : Int) (S : List Int),
    (∀ d ∈ S, h d = h' d) → buildAx h g off n S = buildAx h' g off n S
  | 0, _, _, _ => rfl
  | n + 1, off, [], _ => by
      simp only [buildAx]; rw [buildAx_congr_h h h' g n (off + 1) [] (by simp)]
  | n + 1, off, d :: S, hg => by
      by_cases hd : d = off
      · simp only [buildAx, hd, if_true]
        rw [buildAx_congr_h h h' g n (off + 1) S (fun x hx => hg x (by simp [hx])),
          ← hd, hg d (by simp)]
      · simp only [buildAx, hd, if_false]
        rw [buildAx_congr_h h h' g n (off + 1) (d :: S) hg]

theorem sorted_ext : ∀ (a b : List Int), a.Pairwise (· < ·) → b.Pairwise (· < ·) →
    (∀ d, d ∈ a ↔ d ∈ b) → a = b
  | [], [], _, _, _ => rfl
  | [], b :: bs, _, _, hm => by have := (hm b).mpr (by simp); simp at this
  | a :: as, [], _, _, hm => by have := (hm a).mp (by simp); simp at this
  | a :: as, b :: bs, ha, hb, hm => by
      have e := sorted_head_eq a b as bs ha hb hm
      subst e
      congr 1
      simp only [List.pairwise_cons] at ha hb
      apply sorted_ext as bs ha.2 hb.2
      intro d
      constructor
      · intro hd
        have := (hm d).mp (by simp [hd])
        simp only [List.mem_cons] at this
        rcases this with e | e
        · have := ha.1 d hd; omega
        · exact e
      · intro hd
        have := (hm d).mpr (by simp [hd])
        simp only [List.mem_cons] at this
        rcases this with e | e
        · have := hb.1 d hd; omega
        · exact e

/-- **toData_align_invariant.**  `to_data(x.align(names), name_to_dim)` and
    `to_data(x, name_to_dim)` are the same array: same shape, same entry at every in-bounds index —
    the layout `to_data` produces depends on `name_to_dim` only, never on the order in which the
    funsor lists its inputs. -/
theorem toData_align_invariant (t : Tensor α) (names : List String) (n2d : List (String × Int))
    (hwf : t.WF) (hK : t.keys.Nodup) (hnames : names.Nodup) (hsub : ∀ n ∈ names, n ∈ t.keys)
    (hin : t.inputs ≠ []) (hneg : ∀ p ∈ n2d, p.2 < 0) (hv : (n2d.map (·.2)).Nodup)
    (hkn : (n2d.map (·.1)).Nodup) (hall : ∀ k ∈ t.keys, k ∈ n2d.map (·.1)) :
    ∃ t1 r r1, t.align names = .ok t1 ∧ toData t (some n2d) = .ok r ∧
      toData t1 (some n2d) = .ok r1 ∧ r1.shape = r.shape ∧
      ∀ idx, inb r.shape idx = true → r1.get idx = r.get idx := by
  obtain ⟨t1, r, r1, bshape, bshape1, h1, hr, hr1, hrs, hrs1, hlen, hval⟩ :=
    toData_align_invariant_idx t names n2d hwf hK hnames hsub hin hneg hv hkn hall
  obtain ⟨t1', h1', hk1, hm1, _, hs1, _⟩ := align_sem t names hwf hK hnames hsub
  rw [h1] at h1'; cases h1'
  have ho1 : t1.outShape = t.outShape := by
    show t1.data.shape.drop t1.inputs.length = t.outShape
    rw [hs1]
    have : t1.inputs.length = t1.sizes.length := by simp [Tensor.sizes]
    rw [this]; simp
  have hwf1 : t1.WF := by unfold Tensor.WF; rw [ho1]; exact hs1
  have hK1 : t1.keys.Nodup := by
    rw [hk1, List.nodup_append]
    refine ⟨hnames, hK.sublist List.filter_sublist, ?_⟩
    intro a ha' b hb
    simp only [List.mem_filter, decide_eq_true_eq] at hb
    rintro rfl; exact hb.2 ha'
  have hkeys : ∀ n, n ∈ t1.keys ↔ n ∈ t.keys := by
    intro n
    simp only [Tensor.keys, List.mem_map]
    constructor
    · rintro ⟨p, hp, rfl⟩; exact ⟨p, (hm1 p).mp hp, rfl⟩
    · rintro ⟨p, hp, rfl⟩; exact ⟨p, (hm1 p).mpr hp, rfl⟩
  have hin1 : t1.inputs ≠ [] := by
    intro h
    cases hk : t.inputs with
    | nil => exact hin hk
    | cons p ps =>
      have := (hm1 p).mpr (by simp [hk])
      rw [h] at this; simp at this
  obtain ⟨U, hU, hUn, _⟩ := mapM_lookup_nodup n2d hv hkn t.keys hK hall
  obtain ⟨U1, hU1, hU1n, _⟩ := mapM_lookup_nodup n2d hv hkn t1.keys hK1
    (fun k hk => hall k ((hkeys k).mp hk))
  obtain ⟨r', d0, rest, hS, hr', hsh, _⟩ := toData_sem t n2d hwf hin hneg U hU hUn
  obtain ⟨r1', d1, rest1, hS1, hr1', hsh1, _⟩ := toData_sem t1 n2d hwf1 hin1 hneg U1 hU1 hU1n
  rw [hr] at hr'; cases hr'
  rw [hr1] at hr1'; cases hr1'
  have eU := mapM_eq_map _ (0 : Int) _ _ hU
  have eU1 := mapM_eq_map _ (0 : Int) _ _ hU1
  have hmem : ∀ d, d ∈ U1 ↔ d ∈ U := by
    intro d
    rw [eU, eU1]
    simp only [List.mem_map]
    constructor
    · rintro ⟨k, hk, rfl⟩; exact ⟨k, (hkeys k).mp hk, rfl⟩
    · rintro ⟨k, hk, rfl⟩; exact ⟨k, (hkeys k).mpr hk, rfl⟩
  have hsort : sortInts U1 = sortInts U :=
    sorted_ext _ _ (sortInts_sorted U1 hU1n) (sortInts_sorted U hUn)
      (fun d => by rw [mem_sortInts, mem_sortInts]; exact hmem d)
  have hd : d1 = d0 := by
    rw [hsort, hS] at hS1; cases hS1; rfl
  subst hd
  -- sizes by name
  have hsz : SizedI (sizeOf t.inputs) t.inputs := by
    intro p hp
    unfold sizeOf
    rw [lookup_of_mem_nodup t.inputs p.1 p.2 hK hp]
  have hsz1 : SizedI (sizeOf t.inputs) t1.inputs := fun p hp => hsz p ((hm1 p).mp hp)
  have hd0 := operand_dims (sizeOf t.inputs) t n2d hv hsz U hU hUn (fun _ => 0)
  have hd1 := operand_dims (sizeOf t.inputs) t1 n2d hv hsz1 U1 hU1 hU1n (fun _ => 0)
  have hsize : ∀ d ∈ sortInts U, sizeAt U1 t1.sizes d = sizeAt U t.sizes d := by
    intro d hd
    have hdU := (mem_sortInts d U).mp hd
    obtain ⟨k, hk, hs, _⟩ := hd0.2 d hdU
    obtain ⟨k1, hk1', hs1', _⟩ := hd1.2 d ((hmem d).mpr hdU)
    rw [hk] at hk1'; cases hk1'
    rw [hs, hs1']
  have hshape : r1.shape = r.shape := by
    rw [hsh (fun _ => 0), hsh1 (fun _ => 0), ho1, hsort,
      buildAx_congr_h _ _ _ _ _ _ hsize]
  have hbs : bshape1 = bshape := by
    have := hshape
    rw [hrs, hrs1] at this
    exact List.append_inj_left this hlen
  subst hbs
  refine ⟨t1, r, r1, h1, hr, hr1, hshape, ?_⟩
  intro idx hidx
  rw [hrs] at hidx
  -- split idx into batch and event parts
  have hl : idx.length = (bshape1 ++ t.outShape).length := inb_length _ _ hidx
  have hsplit : idx = idx.take bshape1.length ++ idx.drop bshape1.length := (List.take_append_drop _ _).symm
  have hinb := inb_split bshape1 t.outShape idx hidx
  rw [hsplit]
  exact hval _ _ hinb.1 hinb.1 hinb.2

/-- `toData_align_invariant`: `exT` (a:3, b:2) aligned to (b, a), requested on dims a ↦ -3, b ↦ -1. -/
example : exT.WF ∧ exT.keys.Nodup ∧ ["b"].Nodup ∧ (∀ n ∈ ["b"], n ∈ exT.keys) ∧ exT.inputs ≠ [] ∧
    (∀ p ∈ [("a", (-3 : Int)), ("b", -1)], p.2 < 0) ∧
    (([("a", (-3 : Int)), ("b", -1)]).map (·.2)).Nodup ∧
    (([("a", (-3 : Int)), ("b", -1)]).map (·.1)).Nodup ∧
    ∀ k ∈ exT.keys, k ∈ ([("a", (-3 : Int)), ("b", -1)]).map (·.1) := by
  refine ⟨by unfold Tensor.WF; decide, by decide, by decide, by decide, by decide, by decide,
    by decide, by decide, by decide⟩

example : (match exT.align ["b"] with
    | .ok t1 => (match toData t1 (some [("a", -3), ("b", -1)]) with
      | .ok r => (r.shape, r.toFlat) | .error _ => ([], []))
    | .error _ => ([], []))
    = (match toData exT (some [("a", -3), ("b", -1)]) with
      | .ok r => (r.shape, r.toFlat) | .error _ => ([0], [])) ∧
    (match toData exT (some [("a", -3), ("b", -1)]) with
      | .ok r => r.shape | .error _ => []) = [3, 1, 2, 2] := by decide


end FV.Props.C19
