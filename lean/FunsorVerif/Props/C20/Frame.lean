/-
  Props/C20/Frame.lean — the frame theorem for the heap model of Model/C20/Heap.lean.
-/
import FunsorVerif.Model.C20.Heap
namespace FV.Props.C20
open FV.C20

/-- What "nothing pre-existing was mutated" means between two states: every buffer that existed
    (index < n0) is still there with identical contents, and every register (array handle / term
    field) the caller held still denotes the same view. -/
def Preserved (n0 : Nat) (s s' : State) : Prop :=
  s.heap.length ≤ s'.heap.length ∧ (∀ l : Nat, l < n0 → s'.heap[l]? = s.heap[l]?) ∧
  (∀ (r : Nat) (v : View), s.regs[r]? = some v → s'.regs[r]? = some v)

theorem Preserved.refl (n0 : Nat) (s : State) : Preserved n0 s s :=
  ⟨Nat.le_refl _, fun _ _ => rfl, fun _ _ h => h⟩

theorem Preserved.trans {n0 : Nat} {a b c : State} (h1 : Preserved n0 a b) (h2 : Preserved n0 b c) :
    Preserved n0 a c :=
  ⟨Nat.le_trans h1.1 h2.1, fun l hl => (h2.2.1 l hl).trans (h1.2.1 l hl),
   fun r v h => h2.2.2 r v (h1.2.2 r v h)⟩

/-- The dynamic ownership condition of one instruction: if it writes, it writes through a handle
    whose base buffer was allocated by the program (index ≥ n0). -/
def OwnedWrite (n0 : Nat) (s : State) (i : Instr) : Prop :=
  ∀ (d : Nat) (v : View), i.dst? = some d → s.regs[d]? = some v → n0 ≤ v.base

theorem allocBuf_preserved (n0 : Nat) (s : State) (b : Buf) (h0 : n0 ≤ s.heap.length) :
    Preserved n0 s (allocBuf s b) := by
  refine ⟨by simp [allocBuf], ?_, ?_⟩
  · intro l hl
    simp only [allocBuf]
    exact List.getElem?_append_left (by omega)
  · intro r v h
    simp only [allocBuf]
    have : r < s.regs.length := by
      rcases Nat.lt_or_ge r s.regs.length with h' | h'
      · exact h'
      · rw [List.getElem?_eq_none h'] at h; cases h
    rw [List.getElem?_append_left this]; exact h

theorem pushReg_preserved (n0 : Nat) (s : State) (v : View) : Preserved n0 s (pushReg s v) := by
  refine ⟨by simp [pushReg], fun _ _ => rfl, ?_⟩
  intro r w h
  simp only [pushReg]
  have : r < s.regs.length := by
    rcases Nat.lt_or_ge r s.regs.length with h' | h'
    · exact h'
    · rw [List.getElem?_eq_none h'] at h; cases h
  rw [List.getElem?_append_left this]; exact h

theorem modifyBuf_preserved (n0 : Nat) (s : State) (base : Nat) (f : Buf → Buf) (hb : n0 ≤ base) :
    Preserved n0 s { s with heap := modifyBuf s.heap base f } := by
  refine ⟨by simp [modifyBuf], ?_, fun _ _ h => h⟩
  intro l hl
  simp only [modifyBuf]
  rw [List.getElem?_modify]
  have : base ≠ l := by omega
  simp [this]


/-- One instruction preserves everything pre-existing, provided that — if it is a write — it is owned. -/
theorem step_preserved (n0 : Nat) (i : Instr) (s s' : State) (h0 : n0 ≤ s.heap.length)
    (hown : OwnedWrite n0 s i) (hs : step i s = some s') : Preserved n0 s s' := by
  cases i with
  | alloc n v =>
    simp only [step, Option.some.injEq] at hs; subst hs; exact allocBuf_preserved n0 s _ h0
  | copy src =>
    simp only [step, Option.bind_eq_bind, Option.bind_eq_some_iff, Option.some.injEq] at hs
    obtain ⟨vw, _, xs, _, rfl⟩ := hs
    exact allocBuf_preserved n0 s _ h0
  | binop a b =>
    simp only [step, Option.bind_eq_bind, Option.bind_eq_some_iff] at hs
    obtain ⟨va, _, vb, _, xs, _, ys, _, hs⟩ := hs
    split at hs
    · simp only [Option.some.injEq] at hs; subst hs; exact allocBuf_preserved n0 s _ h0
    · cases hs
  | gather src idx =>
    simp only [step, Option.bind_eq_bind, Option.bind_eq_some_iff, Option.some.injEq] at hs
    obtain ⟨vw, _, xs, _, ys, _, rfl⟩ := hs
    exact allocBuf_preserved n0 s _ h0
  | slice src start stop st =>
    simp only [step, Option.bind_eq_bind, Option.bind_eq_some_iff] at hs
    obtain ⟨vw, _, hs⟩ := hs
    split at hs
    · cases hs
    · simp only [Option.bind_eq_some_iff, Option.some.injEq] at hs
      obtain ⟨sel, _, rfl⟩ := hs
      exact pushReg_preserved n0 s _
  | rev src =>
    simp only [step, Option.bind_eq_bind, Option.bind_eq_some_iff, Option.some.injEq] at hs
    obtain ⟨vw, _, rfl⟩ := hs
    exact pushReg_preserved n0 s _
  | alias src =>
    simp only [step, Option.bind_eq_bind, Option.bind_eq_some_iff, Option.some.injEq] at hs
    obtain ⟨vw, _, rfl⟩ := hs
    exact pushReg_preserved n0 s _
  | setItem dst k v =>
    simp only [step, Option.bind_eq_bind, Option.bind_eq_some_iff] at hs
    obtain ⟨vw, hvw, o, _, b, _, hs⟩ := hs
    split at hs
    · simp only [Option.some.injEq] at hs; subst hs
      exact modifyBuf_preserved n0 s _ _ (hown dst vw rfl hvw)
    · cases hs
  | fill dst v =>
    simp only [step, Option.bind_eq_bind, Option.bind_eq_some_iff, Option.some.injEq] at hs
    obtain ⟨vw, hvw, _, _, rfl⟩ := hs
    exact modifyBuf_preserved n0 s _ _ (hown dst vw rfl hvw)
  | iadd dst src =>
    simp only [step, Option.bind_eq_bind, Option.bind_eq_some_iff] at hs
    obtain ⟨vd, hvd, vs, _, xs, _, ys, _, hs⟩ := hs
    split at hs
    · simp only [Option.some.injEq] at hs; subst hs
      exact modifyBuf_preserved n0 s _ _ (hown dst vd rfl hvd)
    · cases hs
  | assign dst src =>
    simp only [step, Option.bind_eq_bind, Option.bind_eq_some_iff] at hs
    obtain ⟨vd, hvd, vs, _, xs, _, ys, _, hs⟩ := hs
    split at hs
    · simp only [Option.some.injEq] at hs; subst hs
      exact modifyBuf_preserved n0 s _ _ (hown dst vd rfl hvd)
    · cases hs

/-- Every write executed along the run of `p` from `s` is owned (goes to a buffer ≥ n0). -/
def WritesOwned (n0 : Nat) : List Instr → State → Prop
  | [], _ => True
  | i :: is, s => OwnedWrite n0 s i ∧ ∀ s', step i s = some s' → WritesOwned n0 is s'

/-- FRAME THEOREM (dynamic form).  For every program, every initial heap and every initial set of
    handles (arbitrarily aliased): if every write the program executes goes through a handle whose
    base buffer the program itself allocated, then after the run every pre-existing buffer has its
    old contents and every pre-existing handle still denotes the same view. -/
theorem frame (p : List Instr) : ∀ (s s' : State) (n0 : Nat), n0 ≤ s.heap.length →
    WritesOwned n0 p s → run p s = some s' → Preserved n0 s s' := by
  induction p with
  | nil =>
    intro s s' n0 _ _ hr
    simp only [run, Option.some.injEq] at hr; subst hr; exact Preserved.refl _ _
  | cons i is ih =>
    intro s s' n0 h0 hw hr
    simp only [run, Option.bind_eq_some_iff] at hr
    obtain ⟨s1, h1, hr⟩ := hr
    have p1 := step_preserved n0 i s s1 h0 hw.1 h1
    have p2 := ih s1 s' n0 (Nat.le_trans h0 p1.1) (hw.2 s1 h1) hr
    exact p1.trans p2

/-- The same for a run cut short by an exception: effects up to the raise are also framed. -/
theorem frame_partial (p : List Instr) : ∀ (s : State) (n0 : Nat), n0 ≤ s.heap.length →
    WritesOwned n0 p s → Preserved n0 s (runPartial p s) := by
  induction p with
  | nil => intro s n0 _ _; exact Preserved.refl _ _
  | cons i is ih =>
    intro s n0 h0 hw
    simp only [runPartial]
    cases h1 : step i s with
    | none => exact Preserved.refl _ _
    | some s1 =>
      have p1 := step_preserved n0 i s s1 h0 hw.1 h1
      exact p1.trans (ih s1 n0 (Nat.le_trans h0 p1.1) (hw.2 s1 h1))


/-! ### Soundness of the provenance analysis -/

/-- Invariant linking the abstract tags to the concrete state: a register tagged fresh holds a
    view of a buffer allocated after the program started. -/
def Inv (n0 : Nat) (s : State) (tags : List Bool) : Prop :=
  tags.length = s.regs.length ∧
  ∀ (r : Nat) (v : View), s.regs[r]? = some v → tagOf tags r = true → n0 ≤ v.base

theorem tagOf_append_lt (tags : List Bool) (b : Bool) (r : Nat) (h : r < tags.length) :
    tagOf (tags ++ [b]) r = tagOf tags r := by
  simp only [tagOf, List.getElem?_append_left h]

theorem tagOf_append_len (tags : List Bool) (b : Bool) : tagOf (tags ++ [b]) tags.length = b := by
  simp [tagOf]

theorem inv_init (s : State) : Inv s.heap.length s (initTags s) := by
  refine ⟨by simp [initTags], ?_⟩
  intro r v _ ht
  simp only [tagOf, initTags] at ht
  split at ht
  · rename_i b hb
    rw [List.getElem?_replicate] at hb
    split at hb
    · simp only [Option.some.injEq] at hb; subst hb; cases ht
    · cases hb
  · cases ht

theorem inv_push {n0 : Nat} {s : State} {tags : List Bool} (hinv : Inv n0 s tags) (heap' : Heap)
    (v : View) (b : Bool) (hb : b = true → n0 ≤ v.base) :
    Inv n0 { heap := heap', regs := s.regs ++ [v] } (tags ++ [b]) := by
  obtain ⟨hl, hr⟩ := hinv
  refine ⟨by simp [hl], ?_⟩
  intro r w hw ht
  simp only at hw
  rcases Nat.lt_or_ge r s.regs.length with h | h
  · rw [List.getElem?_append_left h] at hw
    rw [tagOf_append_lt _ _ _ (by omega)] at ht
    exact hr r w hw ht
  · rcases Nat.eq_or_lt_of_le h with h | h
    · subst h
      rw [List.getElem?_append_right (Nat.le_refl _)] at hw
      simp only [Nat.sub_self, List.getElem?_cons_zero, Option.some.injEq] at hw
      subst hw
      rw [← hl, tagOf_append_len] at ht
      exact hb ht
    · rw [List.getElem?_eq_none (by simp; omega)] at hw; cases hw

theorem inv_heap {n0 : Nat} {s : State} {tags : List Bool} (hinv : Inv n0 s tags) (heap' : Heap) :
    Inv n0 { s with heap := heap' } tags := hinv

/-- The abstract step is a sound abstraction of the concrete step. -/
theorem step_inv (n0 : Nat) (i : Instr) (s s' : State) (tags : List Bool) (h0 : n0 ≤ s.heap.length)
    (hinv : Inv n0 s tags) (hs : step i s = some s') : Inv n0 s' (absStep i tags) := by
  cases i with
  | alloc n v =>
    simp only [step, Option.some.injEq] at hs; subst hs
    exact inv_push hinv _ _ true (fun _ => h0)
  | copy src =>
    simp only [step, Option.bind_eq_bind, Option.bind_eq_some_iff, Option.some.injEq] at hs
    obtain ⟨vw, _, xs, _, rfl⟩ := hs
    exact inv_push hinv _ _ true (fun _ => h0)
  | binop a b =>
    simp only [step, Option.bind_eq_bind, Option.bind_eq_some_iff] at hs
    obtain ⟨va, _, vb, _, xs, _, ys, _, hs⟩ := hs
    split at hs
    · simp only [Option.some.injEq] at hs; subst hs
      exact inv_push hinv _ _ true (fun _ => h0)
    · cases hs
  | gather src idx =>
    simp only [step, Option.bind_eq_bind, Option.bind_eq_some_iff, Option.some.injEq] at hs
    obtain ⟨vw, _, xs, _, ys, _, rfl⟩ := hs
    exact inv_push hinv _ _ true (fun _ => h0)
  | slice src start stop st =>
    simp only [step, Option.bind_eq_bind, Option.bind_eq_some_iff] at hs
    obtain ⟨vw, hvw, hs⟩ := hs
    split at hs
    · cases hs
    · simp only [Option.bind_eq_some_iff, Option.some.injEq] at hs
      obtain ⟨sel, _, rfl⟩ := hs
      exact inv_push hinv _ _ _ (fun ht => hinv.2 src vw hvw ht)
  | rev src =>
    simp only [step, Option.bind_eq_bind, Option.bind_eq_some_iff, Option.some.injEq] at hs
    obtain ⟨vw, hvw, rfl⟩ := hs
    exact inv_push hinv _ _ _ (fun ht => hinv.2 src vw hvw ht)
  | alias src =>
    simp only [step, Option.bind_eq_bind, Option.bind_eq_some_iff, Option.some.injEq] at hs
    obtain ⟨vw, hvw, rfl⟩ := hs
    exact inv_push hinv _ _ _ (fun ht => hinv.2 src vw hvw ht)
  | setItem dst k v =>
    simp only [step, Option.bind_eq_bind, Option.bind_eq_some_iff] at hs
    obtain ⟨vw, hvw, o, _, b, _, hs⟩ := hs
    split at hs
    · simp only [Option.some.injEq] at hs; subst hs; exact inv_heap hinv _
    · cases hs
  | fill dst v =>
    simp only [step, Option.bind_eq_bind, Option.bind_eq_some_iff, Option.some.injEq] at hs
    obtain ⟨vw, hvw, _, _, rfl⟩ := hs
    exact inv_heap hinv _
  | iadd dst src =>
    simp only [step, Option.bind_eq_bind, Option.bind_eq_some_iff] at hs
    obtain ⟨vd, hvd, vs, _, xs, _, ys, _, hs⟩ := hs
    split at hs
    · simp only [Option.some.injEq] at hs; subst hs; exact inv_heap hinv _
    · cases hs
  | assign dst src =>
    simp only [step, Option.bind_eq_bind, Option.bind_eq_some_iff] at hs
    obtain ⟨vd, hvd, vs, _, xs, _, ys, _, hs⟩ := hs
    split at hs
    · simp only [Option.some.injEq] at hs; subst hs; exact inv_heap hinv _
    · cases hs

/-- A write site the analysis tags `fresh` is dynamically owned. -/
theorem siteFresh_owned (n0 : Nat) (i : Instr) (s : State) (tags : List Bool)
    (hinv : Inv n0 s tags) (hf : siteFresh i tags = true) : OwnedWrite n0 s i := by
  intro d v hd hv
  simp only [siteFresh, hd] at hf
  exact hinv.2 d v hv hf

/-- SOUNDNESS OF THE ANALYSIS: a program all of whose write sites are classified `freshLocal`
    executes only owned writes — from any state related to the tags by the invariant. -/
theorem static_owned (p : List Instr) : ∀ (s : State) (tags : List Bool) (n0 : Nat),
    n0 ≤ s.heap.length → Inv n0 s tags → staticOK p tags = true → WritesOwned n0 p s := by
  induction p with
  | nil => intro _ _ _ _ _ _; trivial
  | cons i is ih =>
    intro s tags n0 h0 hinv hok
    simp only [staticOK, Bool.and_eq_true] at hok
    have hown := siteFresh_owned n0 i s tags hinv hok.1
    refine ⟨hown, ?_⟩
    intro s1 h1
    have p1 := step_preserved n0 i s s1 h0 hown h1
    exact ih s1 (absStep i tags) n0 (Nat.le_trans h0 p1.1) (step_inv n0 i s s1 tags h0 hinv h1) hok.2

/-- FRAME THEOREM (static form; the statement the generated table instantiates).
    For every program `p`, every heap and every register file: if the provenance analysis accepts
    every write site of `p` (target = fresh local, starting from "nothing the caller passed is
    fresh"), then running `p` leaves every pre-existing buffer bit-for-bit unchanged and every
    pre-existing handle denoting the same view. -/
theorem frame_static (p : List Instr) (s s' : State) (hok : staticOK p (initTags s) = true)
    (hr : run p s = some s') : Preserved s.heap.length s s' :=
  frame p s s' s.heap.length (Nat.le_refl _)
    (static_owned p s (initTags s) s.heap.length (Nat.le_refl _) (inv_init s) hok) hr

theorem frame_static_partial (p : List Instr) (s : State) (hok : staticOK p (initTags s) = true) :
    Preserved s.heap.length s (runPartial p s) :=
  frame_partial p s s.heap.length (Nat.le_refl _)
    (static_owned p s (initTags s) s.heap.length (Nat.le_refl _) (inv_init s) hok)

/-- Consequence for what a caller can observe: reading any pre-existing handle gives the same
    values after the run as before ("every previously obtained funsor still has the same data"). -/
theorem read_unchanged (p : List Instr) (s s' : State) (hok : staticOK p (initTags s) = true)
    (hr : run p s = some s') (r : Nat) (v : View) (hv : s.regs[r]? = some v)
    (hb : v.base < s.heap.length) :
    s'.regs[r]? = some v ∧ readView s'.heap v = readView s.heap v := by
  have h := frame_static p s s' hok hr
  refine ⟨h.2.2 r v hv, ?_⟩
  simp only [readView, h.2.1 v.base hb]

/-- `staticOK` is exactly "every entry of the site table is fresh" (the shape of the table obligation). -/
theorem staticOK_iff_siteTags (p : List Instr) : ∀ tags : List Bool,
    staticOK p tags = true ↔ ∀ t ∈ siteTags p tags, t = true := by
  induction p with
  | nil => intro tags; simp [staticOK, siteTags]
  | cons i is ih =>
    intro tags
    simp only [staticOK, siteTags, Bool.and_eq_true, List.mem_append, ih]
    constructor
    · rintro ⟨h1, h2⟩ t (ht | ht)
      · simp only [siteFresh] at h1
        split at ht
        · rename_i d hd
          simp only [hd] at h1
          simp only [List.mem_singleton] at ht; rw [ht]; exact h1
        · cases ht
      · exact h2 t ht
    · intro h
      refine ⟨?_, fun t ht => h t (Or.inr ht)⟩
      simp only [siteFresh]
      split
      · rename_i d hd
        exact h _ (Or.inl (by simp [hd]))
      · rfl

/-! ### The hypotheses are satisfiable, and necessary -/

/-- copy-then-write through a view of the copy: accepted, runs, caller's buffer intact. -/
example :
    let s : State := ⟨[[1, 2, 3, 4]], [⟨0, [0, 1, 2, 3]⟩]⟩
    let p := [Instr.slice 0 1 3 1, .copy 1, .rev 2, .setItem 3 0 9, .iadd 2 1]
    staticOK p (initTags s) = true ∧ (run p s).map (·.heap) = some [[1, 2, 3, 4], [4, 12]] := by
  decide

/-- Without the hypothesis the conclusion fails: writing through a *view* of the caller's array
    (provenance notFresh) changes the caller's buffer, and the analysis rejects exactly that site. -/
theorem unowned_write_witness :
    let s : State := ⟨[[1, 2, 3, 4]], [⟨0, [0, 1, 2, 3]⟩]⟩
    let p := [Instr.slice 0 1 3 1, .rev 1, .setItem 2 0 9]
    staticOK p (initTags s) = false ∧ siteTags p (initTags s) = [false] ∧
    (run p s).map (·.heap) = some [[1, 2, 9, 4]] := by
  decide

end FV.Props.C20
