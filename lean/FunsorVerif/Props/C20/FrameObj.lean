/-
  Props/C20/FrameObj.lean — frame theorem for the object/container extension (Model/C20/Obj.lean).

  Covers the store kinds the write-site table so far justified by review only when the target is a
  container or object allocated in the same function: element stores / deletions / container methods
  on a fresh dict or list (`store`, `del`), attribute stores on an object allocated in the same
  function (`newObj` then `store`: the `initSelf` pattern), shallow copies (`copyObj` then write).
  Statement: such writes leave every pre-existing array buffer, every pre-existing object's slot
  table and every pre-existing handle unchanged — also when the run is cut short by an exception —
  and consequently every *deep* read (path of attribute/element loads) from a pre-existing handle.
-/
import FunsorVerif.Model.C20.Obj
import FunsorVerif.Props.C20.Frame
namespace FV.Props.C20
open FV.C20 FV.C20.Obj

/-- Nothing pre-existing was mutated: array buffers `< n0` and objects `< m0` have identical
    contents, and every register the caller held still holds the same value. -/
def OPreserved (n0 m0 : Nat) (s s' : OState) : Prop :=
  s.arrs.length ≤ s'.arrs.length ∧ s.objs.length ≤ s'.objs.length ∧
  (∀ l : Nat, l < n0 → s'.arrs[l]? = s.arrs[l]?) ∧
  (∀ o : Nat, o < m0 → s'.objs[o]? = s.objs[o]?) ∧
  (∀ (r : Nat) (v : Val), s.regs[r]? = some v → s'.regs[r]? = some v)

theorem OPreserved.refl (n0 m0 : Nat) (s : OState) : OPreserved n0 m0 s s :=
  ⟨Nat.le_refl _, Nat.le_refl _, fun _ _ => rfl, fun _ _ => rfl, fun _ _ h => h⟩

theorem OPreserved.trans {n0 m0 : Nat} {a b c : OState} (h1 : OPreserved n0 m0 a b)
    (h2 : OPreserved n0 m0 b c) : OPreserved n0 m0 a c :=
  ⟨Nat.le_trans h1.1 h2.1, Nat.le_trans h1.2.1 h2.2.1,
   fun l hl => (h2.2.2.1 l hl).trans (h1.2.2.1 l hl),
   fun o ho => (h2.2.2.2.1 o ho).trans (h1.2.2.2.1 o ho),
   fun r v h => h2.2.2.2.2 r v (h1.2.2.2.2 r v h)⟩

/-- A value is *owned* by the program: it designates a cell allocated after the program started. -/
def Val.owned (n0 m0 : Nat) : Val → Prop
  | .arr v => n0 ≤ v.base
  | .obj o => m0 ≤ o
  | .imm _ => True

/-- Dynamic ownership of one instruction: if it writes, the cell written through is owned. -/
def OOwnedWrite (n0 m0 : Nat) (s : OState) (i : OInstr) : Prop :=
  (∀ (d : Nat) (val : Val), i.dst? = some d → s.regs[d]? = some val → Val.owned n0 m0 val) ∧
  (∀ val : Val, i.elemTarget s = some val → Val.owned n0 m0 val)

theorem getElem?_append_some {α : Type} (xs ys : List α) (r : Nat) (v : α) (h : xs[r]? = some v) :
    (xs ++ ys)[r]? = some v := by
  have : r < xs.length := by
    rcases Nat.lt_or_ge r xs.length with h' | h'
    · exact h'
    · rw [List.getElem?_eq_none h'] at h; cases h
  rw [List.getElem?_append_left this]; exact h

/-- A state that only *extends* the heap and the register file preserves everything. -/
theorem opres_ext (n0 m0 : Nat) (s s' : OState) (h0 : n0 ≤ s.arrs.length) (h1 : m0 ≤ s.objs.length)
    (ha : ∃ xs, s'.arrs = s.arrs ++ xs) (ho : ∃ ys, s'.objs = s.objs ++ ys)
    (hr : ∃ zs, s'.regs = s.regs ++ zs) : OPreserved n0 m0 s s' := by
  obtain ⟨xs, ha⟩ := ha; obtain ⟨ys, ho⟩ := ho; obtain ⟨zs, hr⟩ := hr
  refine ⟨by simp [ha], by simp [ho], ?_, ?_, ?_⟩
  · intro l hl; rw [ha]; exact List.getElem?_append_left (by omega)
  · intro o ho'; rw [ho]; exact List.getElem?_append_left (by omega)
  · intro r v h; rw [hr]; exact getElem?_append_some _ _ _ _ h

theorem opres_modArr (n0 m0 : Nat) (s : OState) (base : Nat) (f : Buf → Buf) (hb : n0 ≤ base) :
    OPreserved n0 m0 s { s with arrs := s.arrs.modify base f } := by
  refine ⟨by simp, Nat.le_refl _, ?_, fun _ _ => rfl, fun _ _ h => h⟩
  intro l hl
  rw [List.getElem?_modify]
  have : base ≠ l := by omega
  simp [this]

theorem opres_modObj (n0 m0 : Nat) (s : OState) (o : Nat) (f : Slots → Slots) (hb : m0 ≤ o) :
    OPreserved n0 m0 s { s with objs := s.objs.modify o f } := by
  refine ⟨Nat.le_refl _, by simp, fun _ _ => rfl, ?_, fun _ _ h => h⟩
  intro l hl
  rw [List.getElem?_modify]
  have : o ≠ l := by omega
  simp [this]

/-- One instruction preserves everything pre-existing, provided that — if it is a write — it is owned. -/
theorem ostep_preserved (n0 m0 : Nat) (i : OInstr) (s s' : OState) (h0 : n0 ≤ s.arrs.length)
    (h1 : m0 ≤ s.objs.length) (hown : OOwnedWrite n0 m0 s i) (hs : ostep i s = some s') :
    OPreserved n0 m0 s s' := by
  cases i with
  | newArr n v =>
    simp only [ostep, Option.some.injEq] at hs; subst hs
    exact opres_ext n0 m0 s _ h0 h1 ⟨[_], rfl⟩ ⟨[], by simp⟩ ⟨[_], rfl⟩
  | newObj =>
    simp only [ostep, Option.some.injEq] at hs; subst hs
    exact opres_ext n0 m0 s _ h0 h1 ⟨[], by simp⟩ ⟨[_], rfl⟩ ⟨[_], rfl⟩
  | copyObj src =>
    simp only [ostep] at hs
    split at hs
    · split at hs
      · simp only [Option.some.injEq] at hs; subst hs
        exact opres_ext n0 m0 s _ h0 h1 ⟨[], by simp⟩ ⟨[_], rfl⟩ ⟨[_], rfl⟩
      · cases hs
    · cases hs
  | alias src =>
    simp only [ostep] at hs
    split at hs
    · simp only [Option.some.injEq] at hs; subst hs
      exact opres_ext n0 m0 s _ h0 h1 ⟨[], by simp⟩ ⟨[], by simp⟩ ⟨[_], rfl⟩
    · cases hs
  | load src key =>
    simp only [ostep] at hs
    split at hs
    · split at hs
      · split at hs
        · simp only [Option.some.injEq] at hs; subst hs
          exact opres_ext n0 m0 s _ h0 h1 ⟨[], by simp⟩ ⟨[], by simp⟩ ⟨[_], rfl⟩
        · cases hs
      · cases hs
    · cases hs
  | store dst key src =>
    simp only [ostep] at hs
    split at hs
    · rename_i o v hd _
      split at hs
      · simp only [Option.some.injEq] at hs; subst hs
        exact opres_modObj n0 m0 s _ _ (hown.1 dst (.obj o) rfl hd)
      · cases hs
    · cases hs
  | del dst key =>
    simp only [ostep] at hs
    split at hs
    · rename_i o hd
      split at hs
      · split at hs
        · simp only [Option.some.injEq] at hs; subst hs
          exact opres_modObj n0 m0 s _ _ (hown.1 dst (.obj o) rfl hd)
        · cases hs
      · cases hs
    · cases hs
  | setItem dst k v =>
    simp only [ostep] at hs
    split at hs
    · rename_i vw hd
      split at hs
      · split at hs
        · simp only [Option.some.injEq] at hs; subst hs
          exact opres_modArr n0 m0 s _ _ (hown.1 dst (.arr vw) rfl hd)
        · cases hs
      · cases hs
    · cases hs
  | const n =>
    simp only [ostep, Option.some.injEq] at hs; subst hs
    exact opres_ext n0 m0 s _ h0 h1 ⟨[], by simp⟩ ⟨[], by simp⟩ ⟨[_], rfl⟩
  | augSlot dst key src guard =>
    simp only [ostep] at hs
    split at hs
    · rename_i o hd
      split at hs
      · rename_i sl hsl
        split at hs
        · rename_i cur x hcur hx
          unfold augStep at hs
          split at hs
          · simp only [Option.some.injEq] at hs; subst hs
            exact opres_modObj n0 m0 s _ _ (hown.1 dst (.obj o) rfl hd)
          · rename_i vd vs
            cases guard with
            | true => simp at hs
            | false =>
              have hel : (OInstr.augSlot dst key src false).elemTarget s = some (.arr vd) := by
                simp only [OInstr.elemTarget, hd, hsl, hcur]
              have hvd : n0 ≤ vd.base := hown.2 _ hel
              simp only [Bool.false_eq_true, if_false] at hs
              split at hs
              · split at hs
                · simp only [Option.some.injEq] at hs; subst hs
                  exact opres_modArr n0 m0 s _ _ hvd
                · cases hs
              · cases hs
          · cases hs
        · cases hs
      · cases hs
    · cases hs

/-- Every write executed along the run of `p` from `s` is owned. -/
def OWritesOwned (n0 m0 : Nat) : List OInstr → OState → Prop
  | [], _ => True
  | i :: is, s => OOwnedWrite n0 m0 s i ∧ ∀ s', ostep i s = some s' → OWritesOwned n0 m0 is s'

/-- FRAME THEOREM with objects (dynamic form): if every element/attribute/array store the program
    executes goes into a container, object or buffer the program itself allocated, then every
    pre-existing array buffer, every pre-existing object's slot table and every pre-existing handle
    is unchanged after the run. -/
theorem oframe (p : List OInstr) : ∀ (s s' : OState) (n0 m0 : Nat), n0 ≤ s.arrs.length →
    m0 ≤ s.objs.length → OWritesOwned n0 m0 p s → orun p s = some s' → OPreserved n0 m0 s s' := by
  induction p with
  | nil =>
    intro s s' n0 m0 _ _ _ hr
    simp only [orun, Option.some.injEq] at hr; subst hr; exact OPreserved.refl _ _ _
  | cons i is ih =>
    intro s s' n0 m0 h0 h1 hw hr
    simp only [orun, Option.bind_eq_some_iff] at hr
    obtain ⟨s1, hs1, hr⟩ := hr
    have p1 := ostep_preserved n0 m0 i s s1 h0 h1 hw.1 hs1
    exact p1.trans (ih s1 s' n0 m0 (Nat.le_trans h0 p1.1) (Nat.le_trans h1 p1.2.1) (hw.2 s1 hs1) hr)

/-- The same for a run cut short by an exception (all effects up to the raise are framed). -/
theorem oframe_partial (p : List OInstr) : ∀ (s : OState) (n0 m0 : Nat), n0 ≤ s.arrs.length →
    m0 ≤ s.objs.length → OWritesOwned n0 m0 p s → OPreserved n0 m0 s (orunPartial p s) := by
  induction p with
  | nil => intro s n0 m0 _ _ _; exact OPreserved.refl _ _ _
  | cons i is ih =>
    intro s n0 m0 h0 h1 hw
    simp only [orunPartial]
    cases hs1 : ostep i s with
    | none => exact OPreserved.refl _ _ _
    | some s1 =>
      have p1 := ostep_preserved n0 m0 i s s1 h0 h1 hw.1 hs1
      exact p1.trans (ih s1 n0 m0 (Nat.le_trans h0 p1.1) (Nat.le_trans h1 p1.2.1) (hw.2 s1 hs1))

/-! ### Soundness of the (shallow) provenance analysis -/

def OInv (n0 m0 : Nat) (s : OState) (tags : List Bool) : Prop :=
  tags.length = s.regs.length ∧
  ∀ (r : Nat) (val : Val), s.regs[r]? = some val → tagOf tags r = true → Val.owned n0 m0 val

theorem oinv_init (s : OState) : OInv s.arrs.length s.objs.length s (oinitTags s) := by
  refine ⟨by simp [oinitTags], ?_⟩
  intro r v _ ht
  simp only [tagOf, oinitTags] at ht
  split at ht
  · rename_i b hb
    rw [List.getElem?_replicate] at hb
    split at hb
    · simp only [Option.some.injEq] at hb; subst hb; cases ht
    · cases hb
  · cases ht

theorem oinv_push {n0 m0 : Nat} {s : OState} {tags : List Bool} (hinv : OInv n0 m0 s tags)
    (s' : OState) (v : Val) (b : Bool) (hregs : s'.regs = s.regs ++ [v])
    (hb : b = true → Val.owned n0 m0 v) : OInv n0 m0 s' (tags ++ [b]) := by
  obtain ⟨hl, hr⟩ := hinv
  refine ⟨by simp [hl, hregs], ?_⟩
  intro r w hw ht
  rw [hregs] at hw
  rcases Nat.lt_or_ge r s.regs.length with h | h
  · rw [List.getElem?_append_left h] at hw
    rw [tagOf_append_lt _ _ _ (by omega)] at ht
    exact hr r w hw ht
  · rcases Nat.eq_or_lt_of_le h with h | h
    · subst h
      rw [List.getElem?_append_right (Nat.le_refl _)] at hw
      simp only [Nat.sub_self, List.getElem?_cons_zero, Option.some.injEq] at hw
      subst hw
      rw [← hl, tagOf_append_len] at ht
      exact hb ht
    · rw [List.getElem?_eq_none (by simp; omega)] at hw; cases hw

theorem oinv_same {n0 m0 : Nat} {s : OState} {tags : List Bool} (hinv : OInv n0 m0 s tags)
    (s' : OState) (hregs : s'.regs = s.regs) : OInv n0 m0 s' tags := by
  unfold OInv; rw [hregs]; exact hinv

/-- The abstract step soundly abstracts the concrete one (a loaded value is tagged not-fresh, so
    nothing has to be known about what fresh containers contain). -/
theorem ostep_inv (n0 m0 : Nat) (i : OInstr) (s s' : OState) (tags : List Bool)
    (h0 : n0 ≤ s.arrs.length) (h1 : m0 ≤ s.objs.length) (hinv : OInv n0 m0 s tags)
    (hs : ostep i s = some s') : OInv n0 m0 s' (oabsStep i tags) := by
  cases i with
  | newArr n v =>
    simp only [ostep, Option.some.injEq] at hs; subst hs
    exact oinv_push hinv _ _ true rfl (fun _ => h0)
  | newObj =>
    simp only [ostep, Option.some.injEq] at hs; subst hs
    exact oinv_push hinv _ _ true rfl (fun _ => h1)
  | copyObj src =>
    simp only [ostep] at hs
    split at hs
    · split at hs
      · simp only [Option.some.injEq] at hs; subst hs
        exact oinv_push hinv _ _ true rfl (fun _ => h1)
      · cases hs
    · cases hs
  | alias src =>
    simp only [ostep] at hs
    split at hs
    · rename_i v hv
      simp only [Option.some.injEq] at hs; subst hs
      exact oinv_push hinv _ _ _ rfl (fun ht => hinv.2 src v hv ht)
    · cases hs
  | load src key =>
    simp only [ostep] at hs
    split at hs
    · split at hs
      · split at hs
        · simp only [Option.some.injEq] at hs; subst hs
          exact oinv_push hinv _ _ false rfl (fun ht => by cases ht)
        · cases hs
      · cases hs
    · cases hs
  | store dst key src =>
    simp only [ostep] at hs
    split at hs
    · split at hs
      · simp only [Option.some.injEq] at hs; subst hs; exact oinv_same hinv _ rfl
      · cases hs
    · cases hs
  | del dst key =>
    simp only [ostep] at hs
    split at hs
    · split at hs
      · split at hs
        · simp only [Option.some.injEq] at hs; subst hs; exact oinv_same hinv _ rfl
        · cases hs
      · cases hs
    · cases hs
  | setItem dst k v =>
    simp only [ostep] at hs
    split at hs
    · split at hs
      · split at hs
        · simp only [Option.some.injEq] at hs; subst hs; exact oinv_same hinv _ rfl
        · cases hs
      · cases hs
    · cases hs
  | const n =>
    simp only [ostep, Option.some.injEq] at hs; subst hs
    exact oinv_push hinv _ _ false rfl (fun ht => by cases ht)
  | augSlot dst key src guard =>
    simp only [ostep] at hs
    split at hs
    · split at hs
      · split at hs
        · unfold augStep at hs
          split at hs
          · simp only [Option.some.injEq] at hs; subst hs; exact oinv_same hinv _ rfl
          · split at hs
            · cases hs
            · split at hs
              · split at hs
                · simp only [Option.some.injEq] at hs; subst hs; exact oinv_same hinv _ rfl
                · cases hs
              · cases hs
          · cases hs
        · cases hs
      · cases hs
    · cases hs

theorem ositeFresh_owned (n0 m0 : Nat) (i : OInstr) (s : OState) (tags : List Bool)
    (hinv : OInv n0 m0 s tags) (hf : ositeFresh i tags = true) : OOwnedWrite n0 m0 s i := by
  simp only [ositeFresh, Bool.and_eq_true] at hf
  refine ⟨?_, ?_⟩
  · intro d v hd hv
    have h1 := hf.1
    simp only [hd] at h1
    exact hinv.2 d v hv h1
  · intro val hval
    cases i with
    | augSlot dst key src guard =>
      have h2 : guard = true := hf.2
      subst h2
      simp [OInstr.elemTarget] at hval
    | _ => simp [OInstr.elemTarget] at hval

/-- SOUNDNESS: a program all of whose store sites (array, element, attribute) are classified fresh
    executes only owned writes. -/
theorem ostatic_owned (p : List OInstr) : ∀ (s : OState) (tags : List Bool) (n0 m0 : Nat),
    n0 ≤ s.arrs.length → m0 ≤ s.objs.length → OInv n0 m0 s tags → ostaticOK p tags = true →
    OWritesOwned n0 m0 p s := by
  induction p with
  | nil => intro _ _ _ _ _ _ _ _; trivial
  | cons i is ih =>
    intro s tags n0 m0 h0 h1 hinv hok
    simp only [ostaticOK, Bool.and_eq_true] at hok
    have hown := ositeFresh_owned n0 m0 i s tags hinv hok.1
    refine ⟨hown, ?_⟩
    intro s1 hs1
    have p1 := ostep_preserved n0 m0 i s s1 h0 h1 hown hs1
    exact ih s1 (oabsStep i tags) n0 m0 (Nat.le_trans h0 p1.1) (Nat.le_trans h1 p1.2.1)
      (ostep_inv n0 m0 i s s1 tags h0 h1 hinv hs1) hok.2

/-- FRAME THEOREM with objects (static form).  For every program over arrays, containers and
    objects, every heap and every register file: if the analysis accepts every store site (target
    allocated in this program: fresh array, fresh dict/list, object under construction, shallow
    copy), then the run leaves every pre-existing buffer, every pre-existing object and every
    pre-existing handle unchanged. -/
theorem oframe_static (p : List OInstr) (s s' : OState) (hok : ostaticOK p (oinitTags s) = true)
    (hr : orun p s = some s') : OPreserved s.arrs.length s.objs.length s s' :=
  oframe p s s' _ _ (Nat.le_refl _) (Nat.le_refl _)
    (ostatic_owned p s (oinitTags s) _ _ (Nat.le_refl _) (Nat.le_refl _) (oinv_init s) hok) hr

/-- …and for a run cut short by an exception. -/
theorem oframe_static_partial (p : List OInstr) (s : OState)
    (hok : ostaticOK p (oinitTags s) = true) :
    OPreserved s.arrs.length s.objs.length s (orunPartial p s) :=
  oframe_partial p s _ _ (Nat.le_refl _) (Nat.le_refl _)
    (ostatic_owned p s (oinitTags s) _ _ (Nat.le_refl _) (Nat.le_refl _) (oinv_init s) hok)

/-! ### Deep reads from pre-existing handles -/

/-- Follow a path of element/attribute loads from a value. -/
def follow (s : OState) : List Nat → Val → Option Val
  | [], v => some v
  | k :: ks, .obj o => (s.objs[o]?).bind (fun sl => (getSlot sl k).bind (follow s ks))
  | _ :: _, .arr _ => none
  | _ :: _, .imm _ => none

/-- A value designating a pre-existing cell. -/
def Val.below (n0 m0 : Nat) : Val → Prop
  | .arr v => v.base < n0
  | .obj o => o < m0
  | .imm _ => True

/-- The pre-existing part of the heap is closed: pre-existing objects only reference pre-existing cells
    (true of any initial state with `n0`, `m0` the heap sizes and no dangling references). -/
def Closed (n0 m0 : Nat) (s : OState) : Prop :=
  ∀ (o : Nat) (sl : Slots), o < m0 → s.objs[o]? = some sl → ∀ p ∈ sl, Val.below n0 m0 p.2

theorem getSlot_mem (sl : Slots) (k : Nat) (v : Val) (h : getSlot sl k = some v) :
    ∃ p ∈ sl, p.2 = v := by
  simp only [getSlot, Option.map_eq_some_iff] at h
  obtain ⟨p, hp, rfl⟩ := h
  exact ⟨p, List.mem_of_find?_eq_some hp, rfl⟩

/-- Under `OPreserved`, every path of loads from a pre-existing value resolves to the same value. -/
theorem follow_unchanged (n0 m0 : Nat) (s s' : OState) (hp : OPreserved n0 m0 s s')
    (hc : Closed n0 m0 s) : ∀ (ks : List Nat) (v : Val), Val.below n0 m0 v →
    follow s' ks v = follow s ks v ∧ ∀ w, follow s ks v = some w → Val.below n0 m0 w := by
  intro ks
  induction ks with
  | nil => intro v hv; exact ⟨rfl, fun w hw => by simp only [follow, Option.some.injEq] at hw; subst hw; exact hv⟩
  | cons k ks ih =>
    intro v hv
    cases v with
    | arr vw => exact ⟨rfl, fun w hw => by simp [follow] at hw⟩
    | imm n => exact ⟨rfl, fun w hw => by simp [follow] at hw⟩
    | obj o =>
      have ho : o < m0 := hv
      simp only [follow, hp.2.2.2.1 o ho]
      cases hsl : s.objs[o]? with
      | none => exact ⟨rfl, fun w hw => by simp at hw⟩
      | some sl =>
        simp only [Option.bind_some]
        cases hg : getSlot sl k with
        | none => exact ⟨rfl, fun w hw => by simp at hw⟩
        | some v' =>
          simp only [Option.bind_some]
          obtain ⟨p, hpm, rfl⟩ := getSlot_mem sl k v' hg
          exact ih p.2 (hc o sl ho hsl p hpm)

/-- Consequence for the caller ("every previously obtained funsor still has the same inputs, output
    and data"): after an accepted program, any chain of attribute/element loads starting from a handle
    the caller held reaches the same value, and if that is an array its contents are the same. -/
theorem deep_read_unchanged (p : List OInstr) (s s' : OState)
    (hok : ostaticOK p (oinitTags s) = true) (hr : orun p s = some s')
    (hc : Closed s.arrs.length s.objs.length s) (r : Nat) (v : Val) (hv : s.regs[r]? = some v)
    (hb : Val.below s.arrs.length s.objs.length v) (ks : List Nat) :
    s'.regs[r]? = some v ∧ follow s' ks v = follow s ks v ∧
    ∀ vw, follow s ks v = some (.arr vw) → readView s'.arrs vw = readView s.arrs vw := by
  have h := oframe_static p s s' hok hr
  have hf := follow_unchanged _ _ s s' h hc ks v hb
  refine ⟨h.2.2.2.2 r v hv, hf.1, ?_⟩
  intro vw hw
  have hlt : vw.base < s.arrs.length := hf.2 _ hw
  simp only [readView, h.2.2.1 vw.base hlt]

/-! ### The hypotheses are satisfiable, and the shallow tagging is necessary -/

/-- `initSelf` pattern + fresh dict: allocate an object, store the caller's array and a fresh dict
    into its attributes, fill the dict, copy it and delete from the copy: accepted, runs, and the
    caller's object 0 (which holds the caller's array under key 7) is intact. -/
example :
    let s : OState := ⟨[[1, 2, 3]], [[(7, .arr ⟨0, [0, 1, 2]⟩)]], [.obj 0, .arr ⟨0, [0, 1, 2]⟩]⟩
    let p := [OInstr.newObj, .store 2 0 1, .newObj, .store 3 5 0, .store 2 1 3, .copyObj 3, .del 4 5,
              .newArr 2 0, .setItem 5 1 9, .load 2 0]
    ostaticOK p (oinitTags s) = true ∧ Closed s.arrs.length s.objs.length s ∧
    (orun p s).map (fun t => (t.arrs, t.objs[0]?)) =
      some ([[1, 2, 3], [0, 9]], some [(7, .arr ⟨0, [0, 1, 2]⟩)]) := by
  refine ⟨by decide, ?_, by decide⟩
  intro o sl ho hsl q hq
  have : o = 0 := by simp at ho; omega
  subst this
  simp at hsl; subst hsl
  simp at hq; subst hq
  show 0 < 1
  omega

/-- Freshness must be shallow.  Store the caller's array into a fresh dict, load it back, write
    through it: the caller's buffer changes.  The analysis rejects the program (the loaded handle is
    not fresh); the "deep" variant that lets loads inherit the container's tag would accept it. -/
theorem deep_fresh_unsound_witness :
    let s : OState := ⟨[[1, 2, 3]], [], [.arr ⟨0, [0, 1, 2]⟩]⟩
    let p := [OInstr.newObj, .store 1 0 0, .load 1 0, .setItem 2 1 9]
    ostaticOK p (oinitTags s) = false ∧ ostaticOKDeep p (oinitTags s) = true ∧
    (orun p s).map (·.arrs) = some [[1, 9, 3]] := by
  decide

/-- Without ownership the conclusion fails for containers too: an element store into a dict the
    caller passed changes the caller's object, and the analysis rejects exactly that site. -/
theorem unowned_store_witness :
    let s : OState := ⟨[], [[(1, .obj 0)]], [.obj 0]⟩
    let p := [OInstr.alias 0, .store 1 2 0]
    ostaticOK p (oinitTags s) = false ∧
    (orun p s).map (·.objs) = some [[(1, .obj 0), (2, .obj 0)]] := by
  decide

/-- An augmented element assignment `d[k] op= x` on a fresh container whose element is guarded
    immutable: accepted, runs, rebinding only (counter pattern `children_counts[h] += 1`). -/
example :
    let s : OState := ⟨[], [], [.imm 1]⟩
    let p := [OInstr.newObj, .const 0, .store 1 4 2, .augSlot 1 4 0 true, .augSlot 1 4 0 true, .load 1 4]
    ostaticOK p (oinitTags s) = true ∧ (orun p s).map (·.regs[3]?) = some (some (.imm 2)) := by
  decide

/-- Freshness of the *container* does not justify `d[k] op= x`: with the caller's array stored in a
    fresh dict, the unguarded augmented assignment updates the caller's buffer in place.  The analysis
    rejects the site (no immutability guard); judging it by the container alone would accept it.  The
    table's `augSubscript … freshLocal "FO"` rows therefore additionally need the element type
    (int counters, frozensets) — which is what the `guard` of `augSlot` stands for. -/
theorem augslot_container_only_unsound_witness :
    let s : OState := ⟨[[1, 2]], [], [.arr ⟨0, [0, 1]⟩]⟩
    let p := [OInstr.newObj, .store 1 0 0, .augSlot 1 0 0 false]
    ostaticOK p (oinitTags s) = false ∧ ostaticOKContainerOnly p (oinitTags s) = true ∧
    (orun p s).map (·.arrs) = some [[2, 4]] := by
  decide

/-- …and the guarded form of the same program raises instead of mutating (heap intact). -/
theorem augslot_guard_raises_witness :
    let s : OState := ⟨[[1, 2]], [], [.arr ⟨0, [0, 1]⟩]⟩
    let p := [OInstr.newObj, .store 1 0 0, .augSlot 1 0 0 true]
    ostaticOK p (oinitTags s) = true ∧ orun p s = none ∧ (orunPartial p s).arrs = [[1, 2]] := by
  decide

end FV.Props.C20
