/-
  Props/C20/Table.lean — the obligation over the generated write-site table.
  Re-elaborated whenever the translator's output (Gen/C20WriteSites.lean) changes.
-/
import FunsorVerif.Model.C20.Review
namespace FV.Props.C20
open FV.C20 FV.Gen.C20

/-- Every store site of the scanned source writes into a fresh local / an immutable rebinding / the
    object under construction / import-time registries, or is covered by a reviewed justification. -/
theorem writes_only_fresh : ∀ w ∈ writeSites, siteOk w = true := by decide +kernel

/-- Same statement through the executable filter the driver reports. -/
theorem offending_empty : offending = [] := by decide +kernel

/-- The table is the one the translator counted (guards against a truncated file). -/
theorem table_complete : writeSites.length = numSites := by decide +kernel

end FV.Props.C20
