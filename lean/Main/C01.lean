import FunsorVerif.Core.Loop
import FunsorVerif.Drv.C01
def main : IO Unit := FV.runLoop "C01" FV.Drv.C01.handle
