import FunsorVerif.Core.Loop
import FunsorVerif.Drv.C02
def main : IO Unit := FV.runLoop "C02" FV.Drv.C02.handle
