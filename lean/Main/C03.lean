import FunsorVerif.Core.Loop
import FunsorVerif.Drv.C03
def main : IO Unit := FV.runLoop "C03" FV.Drv.C03.handle
