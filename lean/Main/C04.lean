import FunsorVerif.Core.Loop
import FunsorVerif.Drv.C04
def main : IO Unit := FV.runLoop "C04" FV.Drv.C04.handle
