import FunsorVerif.Core.Loop
import FunsorVerif.Drv.C05
def main : IO Unit := FV.runLoop "C05" FV.Drv.C05.handle
