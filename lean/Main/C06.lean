import FunsorVerif.Core.Loop
import FunsorVerif.Drv.C06
def main : IO Unit := FV.runLoop "C06" FV.Drv.C06.handle
