import FunsorVerif.Core.Loop
import FunsorVerif.Drv.C07
def main : IO Unit := FV.runLoop "C07" FV.Drv.C07.handle
