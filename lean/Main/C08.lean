import FunsorVerif.Core.Loop
import FunsorVerif.Drv.C08
def main : IO Unit := FV.runLoop "C08" FV.Drv.C08.handle
