import FunsorVerif.Core.Loop
import FunsorVerif.Drv.C09
def main : IO Unit := FV.runLoop "C09" FV.Drv.C09.handle
