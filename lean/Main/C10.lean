import FunsorVerif.Core.Loop
import FunsorVerif.Drv.C10
def main : IO Unit := FV.runLoop "C10" FV.Drv.C10.handle
