import FunsorVerif.Core.Loop
import FunsorVerif.Drv.C11
def main : IO Unit := FV.runLoop "C11" FV.Drv.C11.handle
