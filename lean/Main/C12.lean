import FunsorVerif.Core.Loop
import FunsorVerif.Drv.C12
def main : IO Unit := FV.runLoop "C12" FV.Drv.C12.handle
