import FunsorVerif.Core.Loop
import FunsorVerif.Drv.C13
def main : IO Unit := FV.runLoop "C13" FV.Drv.C13.handle
