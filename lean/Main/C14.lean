import FunsorVerif.Core.Loop
import FunsorVerif.Drv.C14
def main : IO Unit := FV.runLoop "C14" FV.Drv.C14.handle
