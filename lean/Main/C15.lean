import FunsorVerif.Core.Loop
import FunsorVerif.Drv.C15
def main : IO Unit := FV.runLoop "C15" FV.Drv.C15.handle
