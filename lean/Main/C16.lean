import FunsorVerif.Core.Loop
import FunsorVerif.Drv.C16
def main : IO Unit := FV.runLoop "C16" FV.Drv.C16.handle
