import FunsorVerif.Core.Loop
import FunsorVerif.Drv.C17
def main : IO Unit := FV.runLoop "C17" FV.Drv.C17.handle
