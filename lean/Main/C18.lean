import FunsorVerif.Core.Loop
import FunsorVerif.Drv.C18
def main : IO Unit := FV.runLoop "C18" FV.Drv.C18.handle
