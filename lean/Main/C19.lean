import FunsorVerif.Core.Loop
import FunsorVerif.Drv.C19
def main : IO Unit := FV.runLoop "C19" FV.Drv.C19.handle
