import FunsorVerif.Core.Loop
import FunsorVerif.Drv.C20
def main : IO Unit := FV.runLoop "C20" FV.Drv.C20.handle
